(* CpcImageProofs.v — proofs about the cpc image model CpcImageDefs.v.
   Part 1: little-endian fields, [rdn] / [rd_words]: round trip and monotonicity.
   Part 2: image level: dec_image_stream (enc_image i ++ rest) = Some (i, rest), dec_image_bytes (enc_image i) = Some i for
           every well-formed image; size; re-serialization; every strict prefix rejected; accepted images have
           size-bounded content and validated fields.
   Part 3: documented offsets of every field per class.
   Part 4: image_of_sketch of a reachable sketch (SInv) is well-formed; the end-to-end round trip. *)
From Coq Require Import NArith ZArith List Bool Arith Lia.
From DS.gen Require Import CpcTablesGen.
From DS Require Import Word Murmur3 RunnerLib CpcDefs CpcCodecTables CpcCodecDefs CpcFlavorDefs CpcImageDefs.
Import ListNotations.
Local Open Scope N_scope.

(** * Part 1: fields *)

Lemma le_len k : forall x, length (N_to_le_bytes k x) = k.
Proof. induction k as [|k IH]; intros x; cbn [N_to_le_bytes length]; [reflexivity|now rewrite IH]. Qed.

Lemma w8_idem x : w8 (w8 x) = w8 x.
Proof. unfold w8. rewrite <- N.land_assoc. reflexivity. Qed.

Lemma w8_small x : x < 256 -> w8 x = x.
Proof. intros H. unfold w8. change 255 with (N.ones 8). rewrite N.land_ones. now apply N.mod_small. Qed.

Lemma w8_lt x : w8 x < 256.
Proof. unfold w8. change 255 with (N.ones 8). rewrite N.land_ones. apply N.mod_lt. discriminate. Qed.

Lemma lor_lo_hi x : N.lor (w8 x) (N.shiftl (N.shiftr x 8) 8) = x.
Proof.
  unfold w8. change 255 with (N.ones 8). apply N.bits_inj. intros n.
  rewrite N.lor_spec, N.land_spec.
  destruct (N.lt_ge_cases n 8) as [H|H].
  - rewrite N.shiftl_spec_low by assumption. rewrite N.ones_spec_low by assumption.
    now rewrite andb_true_r, orb_false_r.
  - rewrite N.shiftl_spec_high' by assumption. rewrite N.shiftr_spec'.
    rewrite N.ones_spec_high by assumption. rewrite andb_false_r. cbn [orb]. f_equal. lia.
Qed.

Lemma le_rt k : forall x, x < 2 ^ (8 * N.of_nat k) -> le_bytes_to_N (N_to_le_bytes k x) = x.
Proof.
  induction k as [|k IH]; intros x Hx.
  - cbn in Hx. cbn [N_to_le_bytes le_bytes_to_N]. lia.
  - cbn [N_to_le_bytes le_bytes_to_N]. rewrite w8_idem. rewrite IH.
    + apply lor_lo_hi.
    + rewrite N.shiftr_div_pow2. apply N.div_lt_upper_bound; [discriminate|].
      rewrite <- N.pow_add_r. replace (8 + 8 * N.of_nat k) with (8 * N.of_nat (S k)) by lia. exact Hx.
Qed.

Lemma lor_lt_pow2 a b n : a < 2 ^ n -> b < 2 ^ n -> N.lor a b < 2 ^ n.
Proof.
  intros Ha Hb. destruct (N.eq_dec (N.lor a b) 0) as [E|E].
  - rewrite E. apply N.neq_0_lt_0. apply N.pow_nonzero. discriminate.
  - apply N.log2_lt_pow2; [lia|]. rewrite N.log2_lor.
    assert (G : forall x, x < 2 ^ n -> x <> 0 -> N.log2 x < n) by (intros x Hx Hx0; apply N.log2_lt_pow2; lia).
    destruct (N.eq_dec a 0) as [->|Ha0]; destruct (N.eq_dec b 0) as [->|Hb0].
    + exfalso. apply E. reflexivity.
    + rewrite N.max_r by (cbn; lia). apply G; assumption.
    + rewrite N.max_l by (cbn; lia). apply G; assumption.
    + apply N.max_lub_lt; apply G; assumption.
Qed.

Lemma le_bytes_lt : forall l, le_bytes_to_N l < 2 ^ (8 * lenN l).
Proof.
  induction l as [|b r IH]; cbn [le_bytes_to_N].
  - cbn. lia.
  - unfold lenN in *. cbn [length]. rewrite Nat2N.inj_succ.
    replace (8 * N.succ (N.of_nat (length r))) with (8 * N.of_nat (length r) + 8) by lia.
    apply lor_lt_pow2.
    + eapply N.lt_le_trans; [apply w8_lt|]. change 256 with (2 ^ 8). apply N.pow_le_mono_r; [discriminate|lia].
    + rewrite N.shiftl_mul_pow2, N.pow_add_r. apply N.mul_lt_mono_pos_r; [reflexivity|exact IH].
Qed.

Lemma len_u16 x : length (u16 x) = 2%nat. Proof. apply le_len. Qed.
Lemma len_u32 x : length (u32 x) = 4%nat. Proof. apply le_len. Qed.
Lemma len_u64 x : length (u64 x) = 8%nat. Proof. apply le_len. Qed.

Lemma firstn_exact {A} n (a b : list A) : length a = n -> firstn n (a ++ b) = a.
Proof. intros <-. rewrite firstn_app, Nat.sub_diag, firstn_O, app_nil_r. apply firstn_all. Qed.
Lemma skipn_exact {A} n (a b : list A) : length a = n -> skipn n (a ++ b) = b.
Proof. intros <-. rewrite skipn_app, Nat.sub_diag, skipn_all. reflexivity. Qed.

Lemma rdn_enc k x r : x < 2 ^ (8 * N.of_nat k) -> rdn k (N_to_le_bytes k x ++ r) = Some (x, r).
Proof.
  intros Hx. unfold rdn. rewrite app_length, le_len.
  destruct (Nat.ltb_spec (k + length r) k) as [H|H]; [lia|].
  rewrite firstn_exact by apply le_len. rewrite skipn_exact by apply le_len. now rewrite le_rt.
Qed.

Lemma rdn1 b r : b < 256 -> rdn 1 (b :: r) = Some (b, r).
Proof.
  intros Hb. change (b :: r) with ([b] ++ r). rewrite <- (w8_small b Hb) at 1.
  change [w8 b] with (N_to_le_bytes 1 b). apply rdn_enc. exact Hb.
Qed.

Lemma rdn_u16 x r : x < 65536 -> rdn 2 (u16 x ++ r) = Some (x, r).
Proof. intros H. apply rdn_enc. exact H. Qed.
Lemma rdn_u32 x r : x < two32 -> rdn 4 (u32 x ++ r) = Some (x, r).
Proof. intros H. apply rdn_enc. exact H. Qed.
Lemma rdn_u64 x r : x < two64 -> rdn 8 (u64 x ++ r) = Some (x, r).
Proof. intros H. apply rdn_enc. exact H. Qed.

(* what a successful read says about the input *)
Lemma rdn_split k l v r : rdn k l = Some (v, r) ->
  l = firstn k l ++ r /\ length (firstn k l) = k /\ v = le_bytes_to_N (firstn k l) /\ v < 2 ^ (8 * N.of_nat k).
Proof.
  unfold rdn. destruct (Nat.ltb_spec (length l) k) as [H|H]; [discriminate|]. intros E. inversion E; subst.
  assert (Hk : length (firstn k l) = k) by (rewrite firstn_length; lia).
  repeat split.
  - symmetry. apply firstn_skipn.
  - exact Hk.
  - pose proof (le_bytes_lt (firstn k l)) as Hlt. unfold lenN in Hlt. rewrite Hk in Hlt. exact Hlt.
Qed.

Lemma rdn_len k l v r : rdn k l = Some (v, r) -> length l = (k + length r)%nat.
Proof.
  intros H. destruct (rdn_split _ _ _ _ H) as (H1 & H2 & _). rewrite H1 at 1. rewrite app_length, H2. reflexivity.
Qed.

Lemma rdn_mono k l v r x : rdn k l = Some (v, r) -> rdn k (l ++ x) = Some (v, r ++ x).
Proof.
  unfold rdn. destruct (Nat.ltb_spec (length l) k) as [H|H]; [discriminate|]. intros E. inversion E; subst.
  rewrite app_length. destruct (Nat.ltb_spec (length l + length x) k) as [H'|H']; [lia|].
  rewrite firstn_app. replace (k - length l)%nat with O by lia. rewrite firstn_O, app_nil_r.
  rewrite skipn_app. replace (k - length l)%nat with O by lia. reflexivity.
Qed.

Lemma rdn_short k l : (length l < k)%nat -> rdn k l = None.
Proof. intros H. unfold rdn. destruct (Nat.ltb_spec (length l) k); [reflexivity|lia]. Qed.

(** ** words *)

Lemma flat_u32_len ws : length (flat_map u32 ws) = (4 * length ws)%nat.
Proof. induction ws as [|w r IH]; cbn [flat_map length]; [reflexivity|]. rewrite app_length, len_u32, IH. lia. Qed.

Lemma words_of_enc : forall ws r, Forall (fun w => w < two32) ws ->
  words_of (length ws) (flat_map u32 ws ++ r) = ws.
Proof.
  induction ws as [|w t IH]; intros r Hf; cbn [length words_of flat_map]; [reflexivity|].
  inversion Hf as [|? ? Hw Ht]; subst. rewrite <- app_assoc.
  rewrite firstn_exact by apply len_u32. rewrite skipn_exact by apply len_u32.
  unfold u32 at 1. rewrite le_rt by exact Hw. rewrite IH by exact Ht. reflexivity.
Qed.

Lemma rd_words_enc ws r : Forall (fun w => w < two32) ws ->
  rd_words (lenN ws) (flat_map u32 ws ++ r) = Some (ws, r).
Proof.
  intros Hf. unfold rd_words, lenN. rewrite app_length, flat_u32_len.
  destruct (N.ltb_spec (N.of_nat (4 * length ws + length r)) (4 * N.of_nat (length ws))) as [H|H]; [lia|].
  rewrite Nat2N.id. rewrite words_of_enc by exact Hf.
  rewrite skipn_exact by apply flat_u32_len. reflexivity.
Qed.

Lemma rd_words_0 l : rd_words 0 l = Some ([], l).
Proof. unfold rd_words. destruct (N.ltb_spec (lenN l) (4 * 0)); [lia|reflexivity]. Qed.

Lemma words_of_len n : forall l, length (words_of n l) = n.
Proof. induction n as [|n IH]; intros l; cbn [words_of length]; [reflexivity|now rewrite IH]. Qed.

Lemma words_of_lt n : forall l, Forall (fun w => w < two32) (words_of n l).
Proof.
  induction n as [|n IH]; intros l; cbn [words_of]; constructor; [|apply IH].
  pose proof (le_bytes_lt (firstn 4 l)) as H. eapply N.lt_le_trans; [exact H|].
  unfold two32. change 4294967296 with (2 ^ 32). apply N.pow_le_mono_r; [discriminate|].
  unfold lenN. pose proof (firstn_le_length 4 l). lia.
Qed.

Lemma words_of_app n : forall l x, (4 * n <= length l)%nat -> words_of n (l ++ x) = words_of n l.
Proof.
  induction n as [|n IH]; intros l x H; cbn [words_of]; [reflexivity|].
  rewrite firstn_app. replace (4 - length l)%nat with O by lia. rewrite firstn_O, app_nil_r.
  rewrite skipn_app. replace (4 - length l)%nat with O by lia. change (skipn 0 x) with x.
  rewrite IH; [reflexivity|]. rewrite skipn_length. lia.
Qed.

Lemma rd_words_spec cnt l ws r : rd_words cnt l = Some (ws, r) ->
  lenN ws = cnt /\ lenN l = 4 * cnt + lenN r /\ Forall (fun w => w < two32) ws /\ l = firstn (4 * N.to_nat cnt) l ++ r.
Proof.
  unfold rd_words. destruct (N.ltb_spec (lenN l) (4 * cnt)) as [H|H]; [discriminate|]. intros E. inversion E; subst.
  unfold lenN in *. rewrite words_of_len, N2Nat.id. repeat split.
  - rewrite skipn_length. lia.
  - apply words_of_lt.
  - symmetry. apply firstn_skipn.
Qed.

Lemma rd_words_mono cnt l ws r x : rd_words cnt l = Some (ws, r) -> rd_words cnt (l ++ x) = Some (ws, r ++ x).
Proof.
  unfold rd_words. destruct (N.ltb_spec (lenN l) (4 * cnt)) as [H|H]; [discriminate|]. intros E. inversion E; subst.
  unfold lenN in *. rewrite app_length.
  destruct (N.ltb_spec (N.of_nat (length l + length x)) (4 * cnt)) as [H'|H']; [lia|].
  rewrite words_of_app by lia. rewrite skipn_app. replace (4 * N.to_nat cnt - length l)%nat with O by lia. reflexivity.
Qed.

(** * Part 2: the image *)

Definition ihh (i : image) : bool := has_hip (i_flags i).
Definition iht (i : image) : bool := has_table (i_flags i).
Definition ihw (i : image) : bool := has_window (i_flags i).

(* what every image written by serialize() satisfies (Part 4), and all that the readers need to give it back *)
Record image_wf (i : image) : Prop := {
  wf_pre : i_pre i = preamble_ints (i_nc i) (ihh i) (iht i) (ihw i);
  wf_ser : i_ser i < 256;
  wf_fam : i_fam i < 256;
  wf_lgk : lgk_ok (i_lgk i) = true;
  wf_fic : i_fic i < 256;
  wf_flags : i_flags i < 256;
  wf_sh : i_sh i < 65536;
  wf_nc : i_nc i < two32;
  wf_nonempty : (i_nc i =? 0) = negb (iht i || ihw i);            (* the writer tests num_coupons, the readers the flags *)
  wf_tne : i_tne i < two32;
  wf_tne_nw : ihw i = false -> i_tne i = i_nc i;                   (* not written: the reader takes num_coupons *)
  wf_tne_nt : iht i = false -> ihw i = true -> i_tne i = 0;        (* not written: the reader leaves 0 *)
  wf_kxp : i_kxp i < two64;
  wf_hip : i_hip i < two64;
  wf_nohip : ihh i && negb (i_nc i =? 0) = false -> i_kxp i = kxp_empty (i_lgk i) /\ i_hip i = 0;
  wf_win : ihw i = false -> i_win i = [];
  wf_tab : iht i = false -> i_tab i = [];
  wf_winw : Forall (fun w => w < two32) (i_win i);
  wf_tabw : Forall (fun w => w < two32) (i_tab i);
  wf_winl : lenN (i_win i) < two32;
  wf_tabl : lenN (i_tab i) < two32;
  wf_counts : counts_ok (i_lgk i) (i_nc i) (i_tne i) (lenN (i_tab i)) (lenN (i_win i)) = true }.

Lemma parse_header_enc i r : i_pre i < 256 -> i_ser i < 256 -> i_fam i < 256 -> i_lgk i < 256 -> i_fic i < 256 ->
  i_flags i < 256 -> i_sh i < 65536 ->
  parse_header (enc_header8 i ++ r) = Some (i_pre i, i_ser i, i_fam i, i_lgk i, i_fic i, i_flags i, i_sh i, r).
Proof.
  intros H1 H2 H3 H4 H5 H6 H7. unfold parse_header, enc_header8. rewrite <- app_assoc. cbn [app].
  rewrite !rdn1 by assumption. cbv beta iota. rewrite rdn_u16 by assumption. reflexivity.
Qed.

Lemma preamble_ints_lt nc a b c : preamble_ints nc a b c < 256.
Proof. unfold preamble_ints. destruct (nc =? 0), a, b, c; cbn; lia. Qed.

Lemma lgk_ok_lt l : lgk_ok l = true -> 4 <= l <= 26.
Proof. unfold lgk_ok. intros H. apply andb_true_iff in H as [H1 H2]. apply N.leb_le in H1, H2. lia. Qed.

Lemma rd_hip_enc i r : i_kxp i < two64 -> i_hip i < two64 -> rd_hip (hip_bytes i ++ r) = Some (i_kxp i, i_hip i, r).
Proof.
  intros H1 H2. unfold rd_hip, hip_bytes. rewrite <- app_assoc. rewrite rdn_u64 by assumption. cbv beta iota.
  rewrite rdn_u64 by assumption. reflexivity.
Qed.

Lemma image_eta i : i = mkI (i_pre i) (i_ser i) (i_fam i) (i_lgk i) (i_fic i) (i_flags i) (i_sh i) (i_nc i) (i_tne i)
                            (i_kxp i) (i_hip i) (i_win i) (i_tab i).
Proof. destruct i; reflexivity. Qed.

Lemma parse_body_enc i rest : image_wf i ->
  parse_body (i_pre i) (i_ser i) (i_fam i) (i_lgk i) (i_fic i) (i_flags i) (i_sh i)
             ((if i_nc i =? 0 then [] else enc_body i) ++ rest) = Some (i, rest).
Proof.
  intros W. destruct W. unfold parse_body, enc_body. fold (ihh i) (iht i) (ihw i).
  transitivity (Some (mkI (i_pre i) (i_ser i) (i_fam i) (i_lgk i) (i_fic i) (i_flags i) (i_sh i) (i_nc i) (i_tne i)
                            (i_kxp i) (i_hip i) (i_win i) (i_tab i), rest)); [|rewrite <- image_eta; reflexivity].
  destruct (i_nc i =? 0) eqn:Enc.
  - rewrite <- wf_nonempty0. cbv iota. cbn [app]. apply N.eqb_eq in Enc.
    symmetry in wf_nonempty0.
    apply negb_true_iff, orb_false_iff in wf_nonempty0 as [Et Ew].
    destruct wf_nohip0 as [Hk Hh]; [apply andb_false_r|].
    rewrite Hk, Hh, (wf_win0 Ew), (wf_tab0 Et), (wf_tne_nw0 Ew), Enc. reflexivity.
  - rewrite <- wf_nonempty0. cbv iota.
    assert (Hc := wf_counts0). cbn [negb] in wf_nohip0. rewrite andb_true_r in wf_nohip0.
    rewrite <- !app_assoc. rewrite rdn_u32 by assumption. cbv beta iota zeta.
    destruct (iht i) eqn:Et, (ihw i) eqn:Ew; cbn [orb negb] in wf_nonempty0; try discriminate;
      destruct (ihh i) eqn:Eh; cbn [andb negb orb opt app];
      try (destruct wf_nohip0 as [Hk Hh]; [reflexivity|]; rewrite ?Hk, ?Hh);
      try rewrite (wf_tne_nw0 eq_refl) in *; try rewrite (wf_tne_nt0 eq_refl eq_refl) in *;
      try rewrite (wf_win0 eq_refl) in *; try rewrite (wf_tab0 eq_refl) in *;
      change (lenN (@nil N)) with 0 in *; cbn [flat_map app] in *;
      repeat (first [ rewrite rdn_u32 by assumption | rewrite rd_hip_enc by assumption ]; cbv beta iota zeta);
      cbn [fst snd]; rewrite Hc; cbn [negb]; cbv iota;
      repeat (first [ rewrite rd_words_0 | rewrite rd_words_enc by assumption ]; cbv beta iota zeta);
      reflexivity.

Qed.

Lemma wf_header_widths i : image_wf i ->
  i_pre i < 256 /\ i_ser i < 256 /\ i_fam i < 256 /\ i_lgk i < 256 /\ i_fic i < 256 /\ i_flags i < 256 /\ i_sh i < 65536.
Proof.
  intros W. destruct W. repeat split; try assumption.
  - rewrite wf_pre0. apply preamble_ints_lt.
  - apply lgk_ok_lt in wf_lgk0. lia.
Qed.

(* C09: the stream reader gives the image back and leaves exactly what follows it *)
Theorem image_rt_stream i rest : image_wf i -> dec_image_stream (enc_image i ++ rest) = Some (i, rest).
Proof.
  intros W. destruct (wf_header_widths i W) as (H1 & H2 & H3 & H4 & H5 & H6 & H7).
  unfold dec_image_stream, enc_image. rewrite <- app_assoc. rewrite parse_header_enc by assumption. cbv beta iota.
  rewrite (wf_lgk i W). cbn [negb]. apply parse_body_enc. exact W.
Qed.

(* the size serialize(header_size_bytes) computes before writing: 4 * (preamble_ints + table words + window words) *)
Theorem image_size_ok i : image_wf i -> lenN (enc_image i) = image_size i.
Proof.
  intros W. destruct W. unfold image_size, enc_image, enc_header8, enc_body, lenN.
  fold (ihh i) (iht i) (ihw i). rewrite wf_pre0. unfold preamble_ints.
  destruct (i_nc i =? 0) eqn:Enc.
  - symmetry in wf_nonempty0. apply negb_true_iff, orb_false_iff in wf_nonempty0 as [Et Ew].
    rewrite (wf_win0 Ew), (wf_tab0 Et). rewrite app_nil_r, app_length, len_u16. reflexivity.
  - destruct (iht i) eqn:Et, (ihw i) eqn:Ew; cbn [orb negb] in wf_nonempty0; try discriminate;
      destruct (ihh i) eqn:Eh; cbn [andb negb opt];
      try rewrite (wf_win0 eq_refl); try rewrite (wf_tab0 eq_refl);
      unfold hip_bytes; repeat rewrite app_length; rewrite ?len_u16, ?len_u32, ?len_u64, ?flat_u32_len;
      cbn [length]; lia.
Qed.

(* C09: the bytes reader gives the image back (and accepts nothing longer or shorter, see below) *)
Theorem image_rt_bytes i : image_wf i -> dec_image_bytes (enc_image i) = Some i.
Proof.
  intros W. destruct (wf_header_widths i W) as (H1 & H2 & H3 & H4 & H5 & H6 & H7).
  pose proof (image_size_ok i W) as Hsz.
  unfold dec_image_bytes. rewrite Hsz. unfold enc_image.
  rewrite <- (app_nil_r (if i_nc i =? 0 then [] else enc_body i)).
  rewrite parse_header_enc by assumption. cbv beta iota.
  rewrite (wf_lgk i W). cbn [negb].
  destruct (N.ltb_spec (image_size i) (4 * i_pre i)) as [H|H]; [unfold image_size in H; lia|].
  rewrite parse_body_enc by exact W. reflexivity.
Qed.

(* C09: re-serialization of what was read is the same image *)
Theorem image_reserialize_bytes i i' : image_wf i -> dec_image_bytes (enc_image i) = Some i' -> enc_image i' = enc_image i.
Proof. intros W H. rewrite image_rt_bytes in H by exact W. inversion H. reflexivity. Qed.

Theorem image_reserialize_stream i i' rest rest' : image_wf i ->
  dec_image_stream (enc_image i ++ rest) = Some (i', rest') -> enc_image i' = enc_image i /\ rest' = rest.
Proof. intros W H. rewrite image_rt_stream in H by exact W. inversion H. auto. Qed.

(** ** monotonicity: a successful parse does not depend on what follows the bytes it consumed *)

Lemma opt_rdn_mono (b : bool) k d l v r x :
  (if b then rdn k l else Some (d, l)) = Some (v, r) ->
  (if b then rdn k (l ++ x) else Some (d, l ++ x)) = Some (v, r ++ x).
Proof. destruct b; [apply rdn_mono|]. intros E. inversion E; subst. reflexivity. Qed.

Lemma rd_hip_mono l v r x : rd_hip l = Some (v, r) -> rd_hip (l ++ x) = Some (v, r ++ x).
Proof.
  unfold rd_hip. destruct (rdn 8 l) as [[a r1]|] eqn:E1; [|discriminate]. rewrite (rdn_mono _ _ _ _ x E1).
  destruct (rdn 8 r1) as [[b r2]|] eqn:E2; [|discriminate]. rewrite (rdn_mono _ _ _ _ x E2).
  intros E. inversion E; subst. reflexivity.
Qed.

Lemma opt_hip_mono (b : bool) d l v r x :
  (if b then rd_hip l else Some (d, l)) = Some (v, r) ->
  (if b then rd_hip (l ++ x) else Some (d, l ++ x)) = Some (v, r ++ x).
Proof. destruct b; [apply rd_hip_mono|]. intros E. inversion E; subst. reflexivity. Qed.

Lemma parse_body_mono pre ser fam lgk fic fl sh l i r x :
  parse_body pre ser fam lgk fic fl sh l = Some (i, r) ->
  parse_body pre ser fam lgk fic fl sh (l ++ x) = Some (i, r ++ x).
Proof.
  unfold parse_body.
  destruct (negb (has_table fl || has_window fl)); [intros E; inversion E; subst; reflexivity|].
  destruct (rdn 4 l) as [[nc r1]|] eqn:E1; [|discriminate]. rewrite (rdn_mono _ _ _ _ x E1).
  match goal with |- context [if ?b then rdn 4 r1 else Some (?d, r1)] =>
    destruct (if b then rdn 4 r1 else Some (d, r1)) as [[tne0 r2]|] eqn:E2; [|discriminate];
    rewrite (opt_rdn_mono b 4 d r1 _ _ x E2) end.
  match goal with |- context [if ?b then rd_hip r2 else Some (?d, r2)] =>
    destruct (if b then rd_hip r2 else Some (d, r2)) as [[kh1 r3]|] eqn:E3; [|discriminate];
    rewrite (opt_hip_mono b d r2 _ _ x E3) end.
  match goal with |- context [if ?b then rdn 4 r3 else Some (?d, r3)] =>
    destruct (if b then rdn 4 r3 else Some (d, r3)) as [[tw r4]|] eqn:E4; [|discriminate];
    rewrite (opt_rdn_mono b 4 d r3 _ _ x E4) end.
  match goal with |- context [if ?b then rdn 4 r4 else Some (?d, r4)] =>
    destruct (if b then rdn 4 r4 else Some (d, r4)) as [[ww r5]|] eqn:E5; [|discriminate];
    rewrite (opt_rdn_mono b 4 d r4 _ _ x E5) end.
  match goal with |- context [if ?b then rd_hip r5 else Some (?d, r5)] =>
    destruct (if b then rd_hip r5 else Some (d, r5)) as [[kh2 r6]|] eqn:E6; [|discriminate];
    rewrite (opt_hip_mono b d r5 _ _ x E6) end.
  cbv zeta. destruct (negb (counts_ok lgk nc (if has_window fl then tne0 else nc) tw ww)); [discriminate|].
  destruct (rd_words ww r6) as [[win r7]|] eqn:E7; [|discriminate]. rewrite (rd_words_mono _ _ _ _ x E7).
  destruct (rd_words tw r7) as [[tab r8]|] eqn:E8; [|discriminate]. rewrite (rd_words_mono _ _ _ _ x E8).
  intros E. inversion E; subst. reflexivity.
Qed.

Lemma parse_header_mono l v r x : parse_header l = Some (v, r) -> parse_header (l ++ x) = Some (v, r ++ x).
Proof.
  unfold parse_header.
  destruct (rdn 1 l) as [[a1 r1]|] eqn:E1; [|discriminate]. rewrite (rdn_mono _ _ _ _ x E1).
  destruct (rdn 1 r1) as [[a2 r2]|] eqn:E2; [|discriminate]. rewrite (rdn_mono _ _ _ _ x E2).
  destruct (rdn 1 r2) as [[a3 r3]|] eqn:E3; [|discriminate]. rewrite (rdn_mono _ _ _ _ x E3).
  destruct (rdn 1 r3) as [[a4 r4]|] eqn:E4; [|discriminate]. rewrite (rdn_mono _ _ _ _ x E4).
  destruct (rdn 1 r4) as [[a5 r5]|] eqn:E5; [|discriminate]. rewrite (rdn_mono _ _ _ _ x E5).
  destruct (rdn 1 r5) as [[a6 r6]|] eqn:E6; [|discriminate]. rewrite (rdn_mono _ _ _ _ x E6).
  destruct (rdn 2 r6) as [[a7 r7]|] eqn:E7; [|discriminate]. rewrite (rdn_mono _ _ _ _ x E7).
  intros E. inversion E; subst. reflexivity.
Qed.

Theorem dec_image_stream_mono l i r x :
  dec_image_stream l = Some (i, r) -> dec_image_stream (l ++ x) = Some (i, r ++ x).
Proof.
  unfold dec_image_stream. destruct (parse_header l) as [[v r0]|] eqn:E; [|discriminate].
  rewrite (parse_header_mono _ _ _ x E). destruct v as [[[[[[pre ser] fam] lgk] fic] fl] sh].
  destruct (negb (lgk_ok lgk)); [discriminate|]. apply parse_body_mono.
Qed.

(* the bytes reader is the stream reader plus two size tests: it accepts only if the stream reader consumes everything *)
Lemma dec_image_bytes_stream l i : dec_image_bytes l = Some i -> dec_image_stream l = Some (i, []).
Proof.
  unfold dec_image_bytes, dec_image_stream. destruct (parse_header l) as [[v r0]|]; [|discriminate].
  destruct v as [[[[[[pre ser] fam] lgk] fic] fl] sh].
  destruct (negb (lgk_ok lgk)); [discriminate|]. destruct (lenN l <? 4 * pre); [discriminate|].
  destruct (parse_body pre ser fam lgk fic fl sh r0) as [[i' rest]|]; [|discriminate].
  destruct rest; [|discriminate]. intros E. inversion E; subst. reflexivity.
Qed.

(** ** C11: every strict prefix of an image is refused by both readers *)
Theorem image_prefix_stream i n : image_wf i -> (n < length (enc_image i))%nat ->
  dec_image_stream (firstn n (enc_image i)) = None.
Proof.
  intros W Hn. destruct (dec_image_stream (firstn n (enc_image i))) as [[i' r]|] eqn:E; [|reflexivity]. exfalso.
  apply (dec_image_stream_mono _ _ _ (skipn n (enc_image i))) in E. rewrite firstn_skipn in E.
  pose proof (image_rt_stream i [] W) as H. rewrite app_nil_r in H. rewrite H in E. inversion E as [[Hi Hr]].
  symmetry in Hr. apply app_eq_nil in Hr as [_ Hr]. apply (f_equal (@length N)) in Hr. rewrite skipn_length in Hr.
  subst. cbn [length] in Hr. lia.
Qed.

Theorem image_prefix_bytes i n : image_wf i -> (n < length (enc_image i))%nat ->
  dec_image_bytes (firstn n (enc_image i)) = None.
Proof.
  intros W Hn. destruct (dec_image_bytes (firstn n (enc_image i))) as [i'|] eqn:E; [|reflexivity].
  apply dec_image_bytes_stream in E. rewrite image_prefix_stream in E by assumption. discriminate.
Qed.

(* the bytes reader refuses trailing bytes *)
Theorem image_trailing_bytes i x : image_wf i -> x <> [] -> dec_image_bytes (enc_image i ++ x) = None.
Proof.
  intros W Hx. destruct (dec_image_bytes (enc_image i ++ x)) as [i'|] eqn:E; [|reflexivity].
  apply dec_image_bytes_stream in E. rewrite image_rt_stream in E by exact W. inversion E. contradiction.
Qed.

(** ** C11: what an accepted image looks like, for ARBITRARY input bytes *)

Lemma opt_rdn_len (b : bool) k d l v r : (if b then rdn k l else Some (d, l)) = Some (v, r) -> (length r <= length l)%nat.
Proof. destruct b; [intros H; apply rdn_len in H; lia|]. intros E. inversion E; subst. lia. Qed.

Lemma rd_hip_len l v r : rd_hip l = Some (v, r) -> (length r <= length l)%nat.
Proof.
  unfold rd_hip. destruct (rdn 8 l) as [[a r1]|] eqn:E1; [|discriminate].
  destruct (rdn 8 r1) as [[b r2]|] eqn:E2; [|discriminate]. intros E. inversion E; subst.
  apply rdn_len in E1, E2. lia.
Qed.

Lemma opt_hip_len (b : bool) d l v r : (if b then rd_hip l else Some (d, l)) = Some (v, r) -> (length r <= length l)%nat.
Proof. destruct b; [apply rd_hip_len|]. intros E. inversion E; subst. lia. Qed.

(* the words of an accepted image were inside the bytes supplied, and the counts passed [counts_ok] before anything was
   sized from them *)
Lemma parse_body_spec pre ser fam lgk fic fl sh l i r :
  parse_body pre ser fam lgk fic fl sh l = Some (i, r) ->
  i_pre i = pre /\ i_ser i = ser /\ i_fam i = fam /\ i_lgk i = lgk /\ i_fic i = fic /\ i_flags i = fl /\ i_sh i = sh /\
  4 * (lenN (i_win i) + lenN (i_tab i)) + lenN r <= lenN l /\
  Forall (fun w => w < two32) (i_win i) /\ Forall (fun w => w < two32) (i_tab i) /\
  (has_table fl || has_window fl = true ->
     4 + 4 * (lenN (i_win i) + lenN (i_tab i)) + lenN r <= lenN l /\
     counts_ok lgk (i_nc i) (i_tne i) (lenN (i_tab i)) (lenN (i_win i)) = true) /\
  (has_table fl || has_window fl = false -> i_nc i = 0 /\ i_win i = [] /\ i_tab i = [] /\ r = l).
Proof.
  unfold parse_body.
  destruct (has_table fl || has_window fl) eqn:Ef; cbn [negb].
  2:{ intros E. inversion E; subst. cbn. repeat split; try constructor; try discriminate; unfold lenN; cbn; lia. }
  destruct (rdn 4 l) as [[nc r1]|] eqn:E1; [|discriminate].
  match goal with |- context [if ?b then rdn 4 r1 else Some (?d, r1)] =>
    destruct (if b then rdn 4 r1 else Some (d, r1)) as [[tne0 r2]|] eqn:E2; [|discriminate] end.
  match goal with |- context [if ?b then rd_hip r2 else Some (?d, r2)] =>
    destruct (if b then rd_hip r2 else Some (d, r2)) as [[kh1 r3]|] eqn:E3; [|discriminate] end.
  match goal with |- context [if ?b then rdn 4 r3 else Some (?d, r3)] =>
    destruct (if b then rdn 4 r3 else Some (d, r3)) as [[tw r4]|] eqn:E4; [|discriminate] end.
  match goal with |- context [if ?b then rdn 4 r4 else Some (?d, r4)] =>
    destruct (if b then rdn 4 r4 else Some (d, r4)) as [[ww r5]|] eqn:E5; [|discriminate] end.
  match goal with |- context [if ?b then rd_hip r5 else Some (?d, r5)] =>
    destruct (if b then rd_hip r5 else Some (d, r5)) as [[kh2 r6]|] eqn:E6; [|discriminate] end.
  cbv zeta. destruct (counts_ok lgk nc (if has_window fl then tne0 else nc) tw ww) eqn:Ec; cbn [negb]; [|discriminate].
  destruct (rd_words ww r6) as [[win r7]|] eqn:E7; [|discriminate].
  destruct (rd_words tw r7) as [[tab r8]|] eqn:E8; [|discriminate].
  intros E. inversion E; subst. cbn [i_pre i_ser i_fam i_lgk i_fic i_flags i_sh i_nc i_tne i_win i_tab].
  apply rdn_len in E1. apply opt_rdn_len in E2, E4, E5. apply opt_hip_len in E3, E6.
  destruct (rd_words_spec _ _ _ _ E7) as (L7 & S7 & F7 & _). destruct (rd_words_spec _ _ _ _ E8) as (L8 & S8 & F8 & _).
  unfold lenN in *. rewrite L7, L8. repeat split; try assumption; try lia; try discriminate.
Qed.

Lemma parse_header_len l v r : parse_header l = Some (v, r) -> length l = (8 + length r)%nat.
Proof.
  unfold parse_header.
  destruct (rdn 1 l) as [[a1 r1]|] eqn:E1; [|discriminate].
  destruct (rdn 1 r1) as [[a2 r2]|] eqn:E2; [|discriminate].
  destruct (rdn 1 r2) as [[a3 r3]|] eqn:E3; [|discriminate].
  destruct (rdn 1 r3) as [[a4 r4]|] eqn:E4; [|discriminate].
  destruct (rdn 1 r4) as [[a5 r5]|] eqn:E5; [|discriminate].
  destruct (rdn 1 r5) as [[a6 r6]|] eqn:E6; [|discriminate].
  destruct (rdn 2 r6) as [[a7 r7]|] eqn:E7; [|discriminate].
  intros E. inversion E; subst. apply rdn_len in E1, E2, E3, E4, E5, E6, E7. lia.
Qed.

(* stream reader, ARBITRARY bytes: lg_k validated; the words of the image and the unread rest were inside the bytes;
   the counts were validated *)
Theorem dec_image_stream_accepts bytes i rest : dec_image_stream bytes = Some (i, rest) ->
  4 <= i_lgk i <= 26 /\
  8 + 4 * (lenN (i_win i) + lenN (i_tab i)) + lenN rest <= lenN bytes /\
  (iht i || ihw i = true -> counts_ok (i_lgk i) (i_nc i) (i_tne i) (lenN (i_tab i)) (lenN (i_win i)) = true) /\
  (iht i || ihw i = false -> i_nc i = 0 /\ i_win i = [] /\ i_tab i = []).
Proof.
  unfold dec_image_stream. destruct (parse_header bytes) as [[v r0]|] eqn:E; [|discriminate].
  destruct v as [[[[[[pre ser] fam] lgk] fic] fl] sh]. destruct (lgk_ok lgk) eqn:El; cbn [negb]; [|discriminate].
  intros H. apply parse_header_len in E. apply parse_body_spec in H.
  destruct H as (_ & _ & _ & Hl & _ & Hfl & _ & Hsz & _ & _ & Hne & He). subst lgk.
  apply lgk_ok_lt in El. unfold iht, ihw. rewrite Hfl. unfold lenN in *. repeat split; try lia.
  - intros Hf. apply Hne. exact Hf.
  - apply He. assumption.
  - apply He. assumption.
  - apply He. assumption.
Qed.

(* bytes reader, ARBITRARY bytes: SIZE-BOUNDED CONTENT — the window and table words of an accepted image number at most
   (|bytes| - 8) / 4: nothing proportional to an unchecked count is built *)
Theorem dec_image_bytes_accepts bytes i : dec_image_bytes bytes = Some i ->
  4 <= i_lgk i <= 26 /\
  8 + 4 * (lenN (i_win i) + lenN (i_tab i)) <= lenN bytes /\
  4 * i_pre i <= lenN bytes /\
  (iht i || ihw i = true -> counts_ok (i_lgk i) (i_nc i) (i_tne i) (lenN (i_tab i)) (lenN (i_win i)) = true) /\
  (iht i || ihw i = false -> i_nc i = 0 /\ i_win i = [] /\ i_tab i = []).
Proof.
  intros H. pose proof (dec_image_bytes_stream _ _ H) as Hs. apply dec_image_stream_accepts in Hs.
  destruct Hs as (H1 & H2 & H3 & H4). change (lenN (@nil N)) with 0 in H2. repeat split; try lia; try assumption; try (apply H4; assumption).
  unfold dec_image_bytes in H. destruct (parse_header bytes) as [[v r0]|] eqn:E; [|discriminate].
  destruct v as [[[[[[pre ser] fam] lgk] fic] fl] sh]. destruct (negb (lgk_ok lgk)); [discriminate|].
  destruct (N.ltb_spec (lenN bytes) (4 * pre)) as [Hp|Hp]; [discriminate|].
  destruct (parse_body pre ser fam lgk fic fl sh r0) as [[i' rest]|] eqn:Eb; [|discriminate].
  destruct rest; [|discriminate]. inversion H; subst. apply parse_body_spec in Eb. destruct Eb as (-> & _). exact Hp.
Qed.

(* what the counts check means: coupons at most the cells of the matrix, table entries at most the load limit of the
   largest u32_table, the words at most the compressor's own buffer sizes *)
Lemma counts_ok_spec l nc tne tw ww : counts_ok l nc tne tw ww = true ->
  nc <= 64 * 2 ^ l /\ 4 * tne <= 192 * 2 ^ l /\ ww <= safe_length_for_compressed_window_buf (2 ^ l) /\
  (exists b, table_words_bound l tne = Some b /\ tw <= b) /\
  (ww = 0 \/ 2 ^ l <= 32 * ww) /\ tne <= 16 * tw.
Proof.
  unfold counts_ok. cbv zeta. intros H. apply andb_true_iff in H as [H H6]. apply andb_true_iff in H as [H H5].
  apply andb_true_iff in H as [H H4]. apply andb_true_iff in H as [H H3].
  apply andb_true_iff in H as [H1 H2]. apply N.leb_le in H1, H2, H3, H6.
  destruct (table_words_bound l tne) as [b|]; [|discriminate]. apply N.leb_le in H4.
  apply orb_true_iff in H5. repeat split; try assumption.
  - exists b. auto.
  - destruct H5 as [H5|H5]; [left; apply N.eqb_eq; exact H5|right; apply N.leb_le; exact H5].
Qed.

(* the tail of both readers, ARBITRARY bytes: preamble_ints consistent with the flags and the coupon count,
   serial version 1, family 16, the seed hash of the caller's seed *)
Theorem sketch_of_image_accepts sd i s kxp hip : sketch_of_image sd i = Some (s, kxp, hip) ->
  i_pre i = preamble_ints (i_nc i) (ihh i) (iht i) (ihw i) /\ i_ser i = 1 /\ i_fam i = 16 /\
  i_sh i = compute_seed_hash sd /\
  lgk s = i_lgk i /\ seed s = sd /\ merged s = negb (ihh i) /\ ncoup s = i_nc i /\ fic s = i_fic i /\
  woff s = determine_correct_offset (i_lgk i) (i_nc i) /\ kxp = i_kxp i /\ hip = i_hip i /\
  uncompress_sketch (cstate_of_image i) (i_lgk i) (i_nc i) = Some (table s, window s) /\
  pairs_in_range (cstate_of_image i) (i_lgk i) (i_nc i) = true.
Proof.
  unfold sketch_of_image. destruct (image_checks sd i) eqn:Ec; cbn [negb]; [|discriminate].
  unfold uncompress_checked. destruct (pairs_in_range (cstate_of_image i) (i_lgk i) (i_nc i)) eqn:Ep; [|discriminate].
  destruct (uncompress_sketch (cstate_of_image i) (i_lgk i) (i_nc i)) as [[t w]|] eqn:Eu; [|discriminate].
  intros E. inversion E; subst. cbn [lgk seed merged ncoup fic woff table window].
  unfold image_checks in Ec. cbv zeta in Ec.
  apply andb_true_iff in Ec as [Ec E4]. apply andb_true_iff in Ec as [Ec E3]. apply andb_true_iff in Ec as [E1 E2].
  apply N.eqb_eq in E1, E2, E3, E4. repeat split; assumption.
Qed.

(** * Part 3: C10 — the documented position of every field, per class of image *)

Definition slice (off len : nat) (l : list N) : list N := firstn len (skipn off l).

Lemma slice_at (a x r : list N) off len : length a = off -> length x = len -> slice off len (a ++ x ++ r) = x.
Proof. intros Ha Hx. unfold slice. rewrite skipn_exact by exact Ha. apply firstn_exact. exact Hx. Qed.

Theorem layout_header i : firstn 8 (enc_image i) = [i_pre i; i_ser i; i_fam i; i_lgk i; i_fic i; i_flags i] ++ u16 (i_sh i).
Proof. unfold enc_image. apply firstn_exact. unfold enc_header8. rewrite app_length, len_u16. reflexivity. Qed.

Theorem layout_empty i : i_nc i = 0 -> enc_image i = enc_header8 i.
Proof. intros H. unfold enc_image. rewrite H. change (0 =? 0) with true. cbv iota. apply app_nil_r. Qed.

(* SPARSE / HYBRID: table only *)
Theorem layout_table_only i : i_nc i <> 0 -> iht i = true -> ihw i = false ->
  enc_image i = enc_header8 i ++ u32 (i_nc i) ++ u32 (lenN (i_tab i)) ++ opt (ihh i) (u64 (i_kxp i) ++ u64 (i_hip i)) ++
                flat_map u32 (i_tab i).
Proof.
  intros Hn Ht Hw. unfold enc_image, enc_body. fold (ihh i) (iht i) (ihw i). apply N.eqb_neq in Hn. rewrite Hn, Ht, Hw.
  cbn [andb negb opt app]. rewrite andb_true_r. reflexivity.
Qed.

(* PINNED / SLIDING without surprising values: window only *)
Theorem layout_window_only i : i_nc i <> 0 -> iht i = false -> ihw i = true ->
  enc_image i = enc_header8 i ++ u32 (i_nc i) ++ u32 (lenN (i_win i)) ++ opt (ihh i) (u64 (i_kxp i) ++ u64 (i_hip i)) ++
                flat_map u32 (i_win i).
Proof.
  intros Hn Ht Hw. unfold enc_image, enc_body. fold (ihh i) (iht i) (ihw i). apply N.eqb_neq in Hn. rewrite Hn, Ht, Hw.
  cbn [andb negb opt app]. rewrite andb_true_r, app_nil_r. reflexivity.
Qed.

(* PINNED / SLIDING with surprising values: table_num_entries, then the HIP registers BEFORE the two word counts *)
Theorem layout_both i : i_nc i <> 0 -> iht i = true -> ihw i = true ->
  enc_image i = enc_header8 i ++ u32 (i_nc i) ++ u32 (i_tne i) ++ opt (ihh i) (u64 (i_kxp i) ++ u64 (i_hip i)) ++
                u32 (lenN (i_tab i)) ++ u32 (lenN (i_win i)) ++ flat_map u32 (i_win i) ++ flat_map u32 (i_tab i).
Proof.
  intros Hn Ht Hw. unfold enc_image, enc_body. fold (ihh i) (iht i) (ihw i). apply N.eqb_neq in Hn. rewrite Hn, Ht, Hw.
  cbn [andb negb opt app]. rewrite andb_false_r. reflexivity.
Qed.

Lemma len_header8 i : length (enc_header8 i) = 8%nat.
Proof. unfold enc_header8. rewrite app_length, len_u16. reflexivity. Qed.

(* offsets: num_coupons at 8 in every non-empty image *)
Theorem layout_num_coupons i : i_nc i <> 0 -> slice 8 4 (enc_image i) = u32 (i_nc i).
Proof.
  intros Hn. unfold enc_image, enc_body. apply N.eqb_neq in Hn. rewrite Hn.
  apply slice_at; [apply len_header8|apply len_u32].
Qed.

(* offsets with HIP registers, table only: words at 12, kxp at 16, hip at 24, data from 32 *)
Theorem layout_table_only_hip_offsets i : i_nc i <> 0 -> iht i = true -> ihw i = false -> ihh i = true ->
  slice 12 4 (enc_image i) = u32 (lenN (i_tab i)) /\ slice 16 8 (enc_image i) = u64 (i_kxp i) /\
  slice 24 8 (enc_image i) = u64 (i_hip i) /\ skipn 32 (enc_image i) = flat_map u32 (i_tab i).
Proof.
  intros Hn Ht Hw Hh. rewrite (layout_table_only i Hn Ht Hw), Hh. cbn [opt]. repeat split; reflexivity.
Qed.

(* offsets without HIP registers (result of a union), table only: words at 12, data from 16 *)
Theorem layout_table_only_nohip_offsets i : i_nc i <> 0 -> iht i = true -> ihw i = false -> ihh i = false ->
  slice 12 4 (enc_image i) = u32 (lenN (i_tab i)) /\ skipn 16 (enc_image i) = flat_map u32 (i_tab i).
Proof.
  intros Hn Ht Hw Hh. rewrite (layout_table_only i Hn Ht Hw), Hh. cbn [opt]. repeat split; reflexivity.
Qed.

(* window only: words at 12, then the HIP registers if any, then the data *)
Theorem layout_window_only_offsets i : i_nc i <> 0 -> iht i = false -> ihw i = true ->
  slice 12 4 (enc_image i) = u32 (lenN (i_win i)) /\
  (ihh i = true -> slice 16 8 (enc_image i) = u64 (i_kxp i) /\ slice 24 8 (enc_image i) = u64 (i_hip i) /\
                   skipn 32 (enc_image i) = flat_map u32 (i_win i)) /\
  (ihh i = false -> skipn 16 (enc_image i) = flat_map u32 (i_win i)).
Proof.
  intros Hn Ht Hw. rewrite (layout_window_only i Hn Ht Hw). split; [reflexivity|].
  split; intros Hh; rewrite Hh; cbn [opt]; repeat split; reflexivity.
Qed.

(* offsets, table and window, HIP registers: entries at 12, kxp at 16, hip at 24, table words at 32, window words at 36,
   window data from 40, table data after it *)
Theorem layout_both_hip_offsets i : i_nc i <> 0 -> iht i = true -> ihw i = true -> ihh i = true ->
  slice 12 4 (enc_image i) = u32 (i_tne i) /\ slice 16 8 (enc_image i) = u64 (i_kxp i) /\
  slice 24 8 (enc_image i) = u64 (i_hip i) /\ slice 32 4 (enc_image i) = u32 (lenN (i_tab i)) /\
  slice 36 4 (enc_image i) = u32 (lenN (i_win i)) /\
  skipn 40 (enc_image i) = flat_map u32 (i_win i) ++ flat_map u32 (i_tab i).
Proof.
  intros Hn Ht Hw Hh. rewrite (layout_both i Hn Ht Hw), Hh. cbn [opt]. repeat split; reflexivity.
Qed.

(* without HIP registers: entries at 12, table words at 16, window words at 20, window data from 24 *)
Theorem layout_both_nohip_offsets i : i_nc i <> 0 -> iht i = true -> ihw i = true -> ihh i = false ->
  slice 12 4 (enc_image i) = u32 (i_tne i) /\ slice 16 4 (enc_image i) = u32 (lenN (i_tab i)) /\
  slice 20 4 (enc_image i) = u32 (lenN (i_win i)) /\
  skipn 24 (enc_image i) = flat_map u32 (i_win i) ++ flat_map u32 (i_tab i).
Proof.
  intros Hn Ht Hw Hh. rewrite (layout_both i Hn Ht Hw), Hh. cbn [opt]. repeat split; reflexivity.
Qed.

(* the flag bits and preamble_ints per class *)
Lemma flags_byte_bits hh ht hw :
  has_hip (flags_byte hh ht hw) = hh /\ has_table (flags_byte hh ht hw) = ht /\ has_window (flags_byte hh ht hw) = hw /\
  N.testbit (flags_byte hh ht hw) 1 = true /\ N.testbit (flags_byte hh ht hw) 0 = false /\ flags_byte hh ht hw < 32.
Proof. destruct hh, ht, hw; vm_compute; repeat split. Qed.

Theorem preamble_ints_table :
  (forall hh ht hw, preamble_ints 0 hh ht hw = 2) /\
  (forall nc, nc <> 0 ->
     preamble_ints nc false true false = 4 /\ preamble_ints nc true true false = 8 /\     (* SPARSE / HYBRID *)
     preamble_ints nc false false true = 4 /\ preamble_ints nc true false true = 8 /\     (* window only *)
     preamble_ints nc false true true = 6 /\ preamble_ints nc true true true = 10).       (* table and window *)
Proof.
  split; [reflexivity|]. intros nc Hn. apply N.eqb_neq in Hn. unfold preamble_ints. rewrite Hn. repeat split.
Qed.
