(* FiEps.v — the epsilon bound for the executable L2 model (FiDefs.v): when every sketch of the history has
   lg_max_map_size <= 10 (at most 769 <= 1024 counters at a purge: the whole map is sampled, the decrement is the
   median of ALL counters), the maximum error never exceeds 3.5 / 2^lg_max times the total weight — for streams,
   merges of sketches of the same or a larger lg_max, and serialize/deserialize.  ANY hash function. *)
From Coq Require Import ZArith NArith List Bool Lia Arith PeanoNat Permutation.
From DS Require Import Word Murmur3 RunnerLib FiDefs FiProofs FiMapProofs FiDelProofs FiIterProofs FiRefine.
Import ListNotations.
Local Open Scope Z_scope.

Section Eps.
  Variable Item : Type.
  Variable eqb : Item -> Item -> bool.
  Hypothesis eqb_spec : forall a b, eqb a b = true <-> a = b.
  Variable hash : Item -> N.

  Notation cell := (cell Item).
  Notation table := (table Item).
  Notation rpmap := (rpmap Item).
  Notation sketch := (sketch Item).
  Notation abs_ents := (abs_ents Item).
  Notation active_cells := (active_cells Item).
  Notation a_add := (a_add Item eqb).
  Notation a_purge := (a_purge Item).
  Notation a_sum := (a_sum Item).
  Notation MapWf := (MapWf Item hash).
  Notation sk_update := (sk_update Item eqb hash).
  Notation sk_replay := (sk_replay Item eqb hash).
  Notation sk_merge := (sk_merge Item eqb hash).
  Notation sk_roundtrip := (sk_roundtrip Item eqb hash).
  Notation act t := (length (active_cells t)).
  Notation asum s := (a_sum (abs_ents (tab _ (sk_map _ s)))).

  (* ceil((cap + 1) / 2) for cap = 3/4 * 2^lg *)
  Definition hof (lg : N) : Z := (2 ^ Z.of_N lg * 3 / 4 + 2) / 2.

  Ltac Zify.zify_post_hook ::= Z.div_mod_to_equations.

  Lemma hof_nonneg lg : 0 <= hof lg.
  Proof. unfold hof. pose proof (Z.pow_pos_nonneg 2 (Z.of_N lg) ltac:(lia) ltac:(lia)). lia. Qed.

  Lemma hof_mono a b : (a <= b)%N -> hof a <= hof b.
  Proof.
    intros H. unfold hof.
    assert (2 ^ Z.of_N a <= 2 ^ Z.of_N b) by (apply Z.pow_le_mono_r; lia).
    pose proof (Z.pow_pos_nonneg 2 (Z.of_N a) ltac:(lia) ltac:(lia)). lia.
  Qed.

  Lemma len_pow (m : rpmap) : MapWf m -> Z.of_nat (length (tab _ m)) = 2 ^ Z.of_N (lgc _ m).
  Proof. intros W. rewrite (w_len _ _ m W), Nat2Z.inj_pow, N_nat_Z. reflexivity. Qed.

  Record EK (s : sketch) : Prop := {
    e_wf : MapWf (sk_map _ s);
    e_off : 0 <= sk_off _ s;
    e_lg : (lgm _ (sk_map _ s) <= 10)%N;
    e_inv : sk_off _ s * hof (lgm _ (sk_map _ s)) <= sk_tot _ s - asum s
  }.

  Lemma length_add_le (m : amap Item) x w : (length (a_add m x w) <= S (length m))%nat.
  Proof. induction m as [|[k v] m IH]; simpl; [lia|]. destruct (eqb k x); simpl; lia. Qed.

  Lemma EK_update s k w : EK s -> 0 <= w -> EK (sk_update s k w) /\ sk_tot _ (sk_update s k w) = sk_tot _ s + w /\
    lgm _ (sk_map _ (sk_update s k w)) = lgm _ (sk_map _ s).
  Proof.
    intros [W Hoff Hlg Hinv] Hw. unfold FiDefs.sk_update. destruct (Z.eqb_spec w 0) as [->|Hw0].
    - split; [constructor; auto|]. split; [lia|reflexivity].
    - pose proof (aoi_correct Item eqb eqb_spec hash (sk_map _ s) k w W ltac:(lia)) as H.
      destruct (adjust_or_insert Item eqb hash (sk_map _ s) k w) as [m' d].
      destruct H as (W' & Hd & Hlgm & (purged & Hperm & Hnp & Hp) & _).
      cbn [sk_map sk_off sk_tot]. split; [|split; [reflexivity|exact Hlgm]].
      constructor; cbn [sk_map sk_off sk_tot]; auto; try lia. rewrite Hlgm.
      set (h := hof (lgm _ (sk_map _ s))) in *. pose proof (hof_nonneg (lgm _ (sk_map _ s))) as Hh. fold h in Hh.
      set (m0 := abs_ents (tab _ (sk_map _ s))) in *.
      destruct purged.
      + destruct (Hp eq_refl) as (Hd0 & Hfull & t1 & Hperm1 & Ed & Hover).
        rewrite (a_sum_perm Item _ _ Hperm).
        assert (Hpos1 : FiProofs.Pos Item (abs_ents t1)).
        { eapply pos_perm; [apply Permutation_sym; exact Hperm1|]. apply pos_add; [exact (w_pos _ _ _ W)|lia]. }
        assert (Hs1 : a_sum (a_purge (a_add m0 k w) d) = a_sum (a_purge (abs_ents t1) d)).
        { apply a_sum_perm, a_purge_perm, Permutation_sym, Hperm1. }
        pose proof (sum_purge Item (abs_ents t1) d Hpos1 ltac:(lia)) as Hsum.
        rewrite (a_sum_perm Item _ _ Hperm1), a_sum_add in Hsum. rewrite Hs1.
        (* the sample is the whole map *)
        assert (Hlen1 : (act t1 <= S (Z.to_nat (nact _ (sk_map _ s))))%nat).
        { rewrite <- (abs_length Item), (Permutation_length Hperm1).
          etransitivity; [apply length_add_le|]. unfold m0. rewrite (abs_length Item), (w_nact _ _ _ W), Nat2Z.id. lia. }
        pose proof (w_cap _ _ _ W) as Hcap. pose proof (w_nact _ _ _ W) as Hn.
        assert (Hcapv : capacity Item (tab _ (sk_map _ s)) = 2 ^ Z.of_N (lgm _ (sk_map _ s)) * 3 / 4).
        { unfold capacity. rewrite (len_pow _ W), Hfull. reflexivity. }
        assert (Hp10 : 2 ^ Z.of_N (lgm _ (sk_map _ s)) <= 2 ^ 10) by (apply Z.pow_le_mono_r; lia).
        assert (Esmp : samples_of Item t1 (Z.of_nat (act t1)) = map snd (abs_ents t1)).
        { unfold samples_of, FiDefs.abs_ents. rewrite map_map. simpl.
          apply firstn_all2. rewrite map_length. change (2 ^ 10) with 1024 in Hp10. lia. }
        rewrite Esmp in Ed.
        assert (Hne : map snd (abs_ents t1) <> []).
        { intros E. apply (f_equal (@length Z)) in E. rewrite map_length, (abs_length Item) in E. simpl in E.
          pose proof (Z.pow_pos_nonneg 2 (Z.of_N (lgm _ (sk_map _ s))) ltac:(lia) ltac:(lia)). lia. }
        pose proof (median_count _ Hne) as Hc. rewrite <- Ed, map_length, (abs_length Item) in Hc.
        assert (Hhc : h <= count_ge d (map snd (abs_ents t1))).
        { eapply Z.le_trans; [|exact Hc].
          assert (Hn1 : (Z.to_nat (capacity Item (tab _ (sk_map _ s)) + 1) <= act t1)%nat) by lia.
          apply half_mono in Hn1. eapply Z.le_trans; [|apply inj_le; exact Hn1].
          pose proof (Z.pow_pos_nonneg 2 (Z.of_N (lgm _ (sk_map _ s))) ltac:(lia) ltac:(lia)).
          rewrite Nat2Z.inj_sub by (apply Nat.lt_le_incl, Nat.div_lt; lia).
          rewrite Nat2Z.inj_div. rewrite Z2Nat.id by lia. change (Z.of_nat 2) with 2.
          unfold h, hof. rewrite Hcapv. lia. }
        fold m0 in Hinv. nia.
      + rewrite (Hnp eq_refl). rewrite (a_sum_perm Item _ _ Hperm), a_sum_add. fold m0 in Hinv. lia.
  Qed.

  Lemma EK_replay (l : list cell) : forall s, EK s -> (forall c, In c l -> 0 <= cv _ c) ->
    EK (sk_replay s l) /\ sk_tot _ (sk_replay s l) = sk_tot _ s + cells_total Item l /\
    lgm _ (sk_map _ (sk_replay s l)) = lgm _ (sk_map _ s).
  Proof.
    unfold FiDefs.sk_replay. induction l as [|c l IH]; intros s K Hv; simpl.
    - split; [exact K|]. split; [lia|reflexivity].
    - destruct (EK_update s (ck _ c) (cv _ c) K (Hv c (or_introl eq_refl))) as (K1 & T1 & L1).
      destruct (IH _ K1 (fun c' H => Hv c' (or_intror H))) as (K2 & T2 & L2).
      split; [exact K2|]. split; [rewrite T2, T1; lia|congruence].
  Qed.

  Lemma cells_total_perm (l l' : list cell) : Permutation l l' -> cells_total Item l = cells_total Item l'.
  Proof. induction 1; simpl; lia. Qed.

  Lemma cells_total_abs (t : table) : cells_total Item (active_cells t) = a_sum (abs_ents t).
  Proof. unfold FiDefs.abs_ents. induction (active_cells t) as [|c l IH]; simpl; [reflexivity|]. now rewrite IH. Qed.

  Lemma entries_total (m : rpmap) : MapWf m -> cells_total Item (entries Item m) = a_sum (abs_ents (tab _ m)).
  Proof. intros W. rewrite (cells_total_perm _ _ (entries_active Item hash m W)). apply cells_total_abs. Qed.

  Lemma EK_new lg_max lg_start : (lg_start <= lg_max)%N -> (lg_max <= 10)%N -> EK (sk_new Item lg_max lg_start).
  Proof.
    intros Hle H10. pose proof (SkInv_new Item eqb eqb_spec hash lg_max lg_start Hle) as K.
    constructor; [exact (k_wf _ _ _ _ _ _ K)|simpl; lia|simpl; lia|].
    assert (E : abs_ents (tab _ (sk_map _ (sk_new Item lg_max lg_start))) = []).
    { pose proof (w_nact _ _ _ (k_wf _ _ _ _ _ _ K)) as Hn. simpl in Hn. rewrite <- (abs_length Item) in Hn.
      destruct (abs_ents _); [reflexivity|simpl in Hn; lia]. }
    rewrite E. simpl. lia.
  Qed.

  Lemma EK_merge a b : EK a -> EK b -> (lgm _ (sk_map _ a) <= lgm _ (sk_map _ b))%N -> EK (sk_merge a b).
  Proof.
    intros Ka Kb Hle. unfold FiDefs.sk_merge.
    destruct ((nact _ (sk_map _ b) =? 0) && (sk_tot _ b =? 0)); [exact Ka|].
    pose proof (e_wf b Kb) as Wb.
    destruct (EK_replay (entries Item (sk_map _ b)) a Ka) as ([W' Hoff' Hlg' Hinv'] & T' & L').
    { intros c Hc. pose proof (entries_pos Item hash _ c Wb Hc). lia. }
    set (a' := sk_replay a (entries Item (sk_map _ b))) in *.
    rewrite (entries_total _ Wb) in T'.
    constructor; cbn [sk_map sk_off sk_tot]; auto.
    - pose proof (e_off b Kb). lia.
    - rewrite L' in *. pose proof (e_inv b Kb) as Hb. pose proof (e_off b Kb) as Hob.
      pose proof (hof_mono _ _ Hle). pose proof (hof_nonneg (lgm _ (sk_map _ a))). nia.
  Qed.

  Lemma EK_roundtrip s : EK s -> EK (sk_roundtrip s).
  Proof.
    intros K. pose proof (e_wf s K) as W. unfold FiDefs.sk_roundtrip. set (m := sk_map _ s) in *.
    pose proof (w_le _ _ m W) as Hlgle. pose proof (w_min _ _ m W) as Hmin.
    assert (Hnew : EK (sk_new Item (lgm _ m) (lgc _ m))) by (apply EK_new; [exact Hlgle|exact (e_lg s K)]).
    destruct (Z.eqb_spec (nact _ m) 0) as [E0|N0]; [exact Hnew|].
    set (s0 := sk_new Item (lgm _ m) (lgc _ m)) in *.
    pose proof (SkInv_new Item eqb eqb_spec hash (lgm _ m) (lgc _ m) Hlgle) as Knew. fold s0 in Knew.
    pose proof (SkInv_replay Item eqb eqb_spec hash (entries Item m) s0 _ _ Knew
                  (fun c H => entries_pos Item hash _ c W H)) as K1.
    assert (Hoff1 : sk_off _ (sk_replay s0 (entries Item m)) = 0).
    { rewrite (replay_fits Item eqb eqb_spec hash); [reflexivity|exact (k_wf _ _ _ _ _ _ Knew)
                                                      |exact (fun c H => entries_pos Item hash _ c W H)|].
      unfold s0, sk_new. cbn [sk_map nact tab].
      rewrite (Permutation_length (entries_active Item hash m W)).
      replace (N.max (lgc _ m) 3) with (lgc _ m) by lia.
      rewrite <- (w_nact _ _ m W). pose proof (w_cap _ _ m W) as Hc. unfold capacity in *.
      rewrite repeat_length, <- (w_len _ _ m W). lia. }
    destruct (EK_replay (entries Item m) s0 Hnew) as (_ & _ & L1).
    { intros c Hc. pose proof (entries_pos Item hash _ c W Hc). lia. }
    set (s1 := sk_replay s0 (entries Item m)) in *.
    destruct K1 as [W1 _ _ _ _ Hbr1].
    assert (Hsame : Permutation (abs_ents (tab _ (sk_map _ s1))) (abs_ents (tab _ m))).
    { apply (perm_of_get Item eqb eqb_spec).
      - apply (nodup_abs Item hash). exact (w_pi _ _ _ W1).
      - apply (nodup_abs Item hash). exact (w_pi _ _ _ W).
      - exact (w_pos _ _ _ W1).
      - exact (w_pos _ _ _ W).
      - intros y. rewrite <- !(tget_abs Item eqb eqb_spec hash) by (first [exact (w_pi _ _ _ W1)|exact (w_pi _ _ _ W)]).
        specialize (Hbr1 y). cbv beta in Hbr1.
        rewrite Hoff1, (entries_weight Item eqb eqb_spec hash) in Hbr1 by exact W.
        rewrite (sk_lb_tget Item eqb hash) in Hbr1. lia. }
    assert (Elg : lgm _ (sk_map _ s1) = lgm _ m).
    { rewrite L1. unfold s0, sk_new. cbn [sk_map lgm]. lia. }
    constructor; cbn [sk_map sk_off sk_tot].
    - exact W1.
    - exact (e_off s K).
    - rewrite Elg. exact (e_lg s K).
    - rewrite Elg, (a_sum_perm Item _ _ Hsame). exact (e_inv s K).
  Qed.

  (* every history of sketches with lg_max_map_size <= 10; merges of a sketch with the same or a larger lg_max *)
  Inductive EReach : sketch -> Prop :=
  | ER_new lg_max lg_start : (lg_start <= lg_max)%N -> (lg_max <= 10)%N -> EReach (sk_new Item lg_max lg_start)
  | ER_update s k w : EReach s -> 0 <= w -> EReach (sk_update s k w)
  | ER_merge a b : EReach a -> EReach b -> (lgm _ (sk_map _ a) <= lgm _ (sk_map _ b))%N -> EReach (sk_merge a b)
  | ER_roundtrip s : EReach s -> EReach (sk_roundtrip s).

  Lemma EReach_EK s : EReach s -> EK s.
  Proof.
    induction 1.
    - now apply EK_new.
    - now apply EK_update.
    - now apply EK_merge.
    - now apply EK_roundtrip.
  Qed.

  (* maximum error <= 3.5 / 2^lg_max * total weight *)
  Theorem sk_eps_bound s : EReach s ->
    2 * 2 ^ Z.of_N (lgm _ (sk_map _ s)) * sk_off _ s <= 7 * sk_tot _ s.
  Proof.
    intros R. destruct (EReach_EK s R) as [W Hoff Hlg Hinv].
    apply eps_arith; auto.
    - pose proof (w_min _ _ _ W). pose proof (w_le _ _ _ W). lia.
    - fold (hof (lgm _ (sk_map _ s))). pose proof (pos_sum_nonneg Item _ (w_pos _ _ _ W)). lia.
  Qed.
End Eps.
