(* Properties_C16.v — placeholder, replaced once VarOptProofs.v is in place *)
From DS Require Import VarOptDefs.
