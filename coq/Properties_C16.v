(* Properties_C16.v — VarOpt sampling sketch and union: samples conserve total weight and keep heavy items exactly.
   Only statements, closed by [exact]; proofs live in VarOptProofs.v / VarOptTheorems.v / VarOptUnion.v / VarOptMarks.v / VarOptTotal.v / VarOptHeavy.v.

   All theorems are about the EXACT-ARITHMETIC (Q) instance of the model text of VarOptDefs.v (the binary64 instance
   of the same text is what is extracted and replayed bit for bit against the C++).  They hold for every stream
   [xs] of (item, weight) updates (negative weights are refused, zero weights ignored, as in the code), every k >= 1,
   every sequence [c] of random draws (too short sequences included) and every decoding [cu] of the unit-interval
   draws. *)
From Coq Require Import ZArith List Bool QArith Lia Permutation.
From DS Require Import RunnerLib VarOptDefs VarOptProofs VarOptTheorems VarOptUnion VarOptMarks VarOptTotal VarOptHeavy.
Import ListNotations.

Section AnyDraws.
  Variable Item : Type.
  Variable ditem : Item.
  Variable cu : Z -> Q.
  Variable k : nat.
  Hypothesis Hk : (1 <= k)%nat.
  Variable gadget : bool.

  (* a history: updates, serialize/deserialize round trips and resets in any order ([hop], [hrun] in VarOptTheorems.v);
     [input ops] = the accepted (positive-weight) updates since the last reset *)
  Notation sketch_after ops c := (fst (hrun Item ditem cu (Qempty Item k gadget) ops c)).
  Notation input ops := (hlog Item [] ops).
  Notation wsum := (wsum Item).
  Notation sumw := (sumw Item).
  Notation pairs_of := (pairs_of Item).
  Notation Qtau := (Qtau Item).

  Let HI := fun ops c => history_Inv Item ditem cu k gadget ops c Hk.

  (* the invariant every history establishes ([Inv] in VarOptTheorems.v: at rest, provenance, weight, n); it is the
     hypothesis on the input sketches of the union theorems below *)
  Theorem C16_history_inv : forall ops c, Inv Item ditem k (sketch_after ops c) (input ops).
  Proof. exact HI. Qed.

  (* h + r = min(n, k); the M region is empty at rest; n counts the accepted updates *)
  Theorem C16_counts : forall ops c,
    let S := sketch_after ops c in
    vM S = [] /\ mm S = 0%nat /\ vn S = Z.of_nat (length (input ops)) /\
    (hh S + rr S = Nat.min (length (input ops)) k)%nat /\
    get_num_samples Item Q S = Nat.min (length (input ops)) k.
  Proof. intros ops c. exact (inv_counts Item ditem k _ _ (HI ops c)). Qed.

  (* sum of the H weights + total_wt_r = sum of the input weights *)
  Theorem C16_weight : forall ops c,
    let S := sketch_after ops c in sumw (vH S) + vtot S == wsum (input ops).
  Proof. intros ops c. exact (inv_weight Item ditem k _ _ (HI ops c)). Qed.

  (* tau never decreases (along a history without reset) *)
  Theorem C16_tau_monotone : forall ops ops' c, no_reset Item ops' ->
    let S1 := sketch_after ops c in let S2 := sketch_after (ops ++ ops') c in
    (1 <= rr S1)%nat -> (1 <= rr S2)%nat /\ Qtau S1 <= Qtau S2.
  Proof. intros ops ops' c Hnr. exact (history_tau_monotone Item ditem cu k gadget ops ops' c Hk Hnr). Qed.

  (* while n <= k the sketch holds exactly the input *)
  Theorem C16_exact_mode : forall ops c, (length (input ops) <= k)%nat ->
    let S := sketch_after ops c in vR S = [] /\ Permutation (input ops) (pairs_of (vH S)).
  Proof. intros ops c. exact (inv_exact_mode Item ditem k _ _ (HI ops c)). Qed.

  (* where every input went: H (exact weight), R (LR), dropped (LD); everything outside H is no heavier than tau *)
  Theorem C16_provenance : forall ops c,
    let S := sketch_after ops c in
    exists LR LD, Permutation (input ops) (pairs_of (vH S) ++ LR ++ LD) /\ map fst LR = vR S /\
      (forall p, In p (LR ++ LD) -> (1 <= rr S)%nat /\ snd p <= Qtau S).
  Proof. intros ops c. exact (inv_provenance Item ditem k _ _ (HI ops c)). Qed.

  (* every input heavier than tau is in H with its exact weight *)
  Theorem C16_heavy_kept : forall ops c x w,
    let S := sketch_after ops c in
    In (x, w) (input ops) -> (rr S = 0%nat \/ Qtau S < w) -> In (x, w) (pairs_of (vH S)).
  Proof. intros ops c. exact (inv_heavy_kept Item ditem k _ _ (HI ops c)). Qed.

  (* samples come from the input *)
  Theorem C16_samples_from_input : forall ops c,
    let S := sketch_after ops c in
    (forall p, In p (pairs_of (vH S)) -> In p (input ops)) /\
    (forall x, In x (vR S) -> exists w, In (x, w) (input ops) /\ w <= Qtau S).
  Proof. intros ops c. exact (inv_samples_from_input Item ditem k _ _ (HI ops c)). Qed.

  (* estimation mode: H is a binary min-heap (as an array) and no H item is lighter than tau *)
  Theorem C16_heap : forall ops c,
    let S := sketch_after ops c in
    (1 <= rr S)%nat -> hp Item ditem Q 0 Qle (vH S) /\ forall y, In y (vH S) -> Qtau S <= s_wt y.
  Proof. intros ops c. exact (inv_heap Item ditem k _ _ (HI ops c)). Qed.

  (* update never throws std::logic_error in exact arithmetic: refused iff w < 0, ignored iff w = 0, applied iff w > 0
     (whatever draws come next) *)
  Theorem C16_update_total : forall ops c x w c',
    match Qupdate Item ditem cu (sketch_after ops c) x w false c' with
    | UThrew _ _ _ => False
    | URefused _ _ => w < 0
    | UIgnored _ _ => w == 0
    | UOk _ _ _ _ => 0 < w
    end.
  Proof. intros ops c. exact (inv_update_total Item ditem cu k _ _ (HI ops c)). Qed.

  (* subset sums: for EVERY predicate the call returns, estimate = exact weight of matching H items + tau * #matching R
     items, 0 <= estimate <= total input weight *)
  Theorem C16_subset_sum : forall ops c p,
    let S := sketch_after ops c in
    exists est tot cnt, Qestimate Item S p = Some (est, tot, cnt) /\
      est == psum Item p (vH S) + (if (rr S =? 0)%nat then 0 else Qtau S * qn (length (filter p (vR S)))) /\
      0 <= est /\ est <= wsum (input ops) /\
      ((1 <= rr S)%nat \/ (forall x, p x = true) -> tot == wsum (input ops)).
  Proof. intros ops c p. exact (inv_estimate Item ditem k _ _ p (HI ops c)). Qed.

  (* the always-true predicate: estimate = total input weight *)
  Theorem C16_subset_sum_total : forall ops c,
    exists est tot cnt, Qestimate Item (sketch_after ops c) (fun _ => true) = Some (est, tot, cnt) /\
      est == wsum (input ops) /\ tot == wsum (input ops).
  Proof. intros ops c. exact (inv_estimate_total Item ditem k _ _ (HI ops c)). Qed.

  (* serialize + deserialize of any reachable sketch succeeds and returns the same regions (and can be updated again:
     the result is again a [sketch_after] of the history extended by [RoundTrip], to which all theorems above apply) *)
  Theorem C16_roundtrip : forall ops c,
    let S := sketch_after ops c in
    exists S', Qserde Item S = Some S' /\ vH S' = vH S /\ vR S' = vR S /\ vtot S' == vtot S /\
               vn S' = vn S /\ vk S' = vk S /\ vM S' = [] /\ mm S' = 0%nat.
  Proof. intros ops c. exact (history_roundtrip Item ditem cu k gadget ops c Hk). Qed.

  (* the whole lifecycle, spelled out: update*, serialize/deserialize, update* (any number of round trips, in any position):
     the restored sketch continues exactly where the original stood - tau keeps growing across the round trip, and after the
     continuation every input (before or after the round trip) heavier than tau is in H with its exact weight *)
  Corollary C16_lifecycle_deserialize_continue : forall xs ys c,
    let before := map (fun p => Upd Item (fst p) (snd p)) xs in
    let after := map (fun p => Upd Item (fst p) (snd p)) ys in
    let S1 := sketch_after before c in
    let S2 := sketch_after (before ++ RoundTrip Item :: after) c in
    ((1 <= rr S1)%nat -> (1 <= rr S2)%nat /\ Qtau S1 <= Qtau S2) /\
    (forall x w, In (x, w) (input (before ++ RoundTrip Item :: after)) -> (rr S2 = 0%nat \/ Qtau S2 < w) ->
                 In (x, w) (pairs_of (vH S2))).
  Proof.
    intros xs ys c before after S1 S2. split.
    - apply (history_tau_monotone Item ditem cu k gadget before (RoundTrip Item :: after) c Hk).
      apply Forall_cons; [discriminate|]. subst after. apply Forall_forall. intros o Ho. apply in_map_iff in Ho.
      destruct Ho as (p & <- & _). discriminate.
    - exact (inv_heavy_kept Item ditem k _ _ (HI _ c)).
  Qed.
End AnyDraws.


Section Union.
  Variable Item : Type.
  Variable ditem : Item.
  Variable cu : Z -> Q.

  (* union.update(sketch), for a union in any reachable state ([UInv u n W]: n = sum of the n, W = sum of the input
     weights of the sketches given so far) and any sketch at rest with input A: never throws in exact arithmetic,
     n grows by the sketch's n, the gadget's weight by the sketch's total input weight, the gadget's sample items
     ([sitems]) come from its previous samples and the sketch's samples *)
  Theorem C16_union_update : forall (u : vu Item Q) n W (S : vo Item Q) k A c,
    UInv Item ditem u n W -> Inv Item ditem k S A ->
    exists u' c', Qunion_update Item ditem cu u S c = (u', c', true) /\
      UInv Item ditem u' (n + Z.of_nat (length A)) (W + wsum Item A) /\ umaxk u' = umaxk u /\
      incl (sitems Item (ugad u')) (sitems Item (ugad u) ++ sitems Item S).
  Proof. exact (union_update_spec Item ditem cu). Qed.

  (* get_result, whichever of the three coercers is taken: if it returns, the result has the union's n and total weight,
     k <= max_k, at most k samples, empty M region *)
  Theorem C16_union_result : forall a4 (u : vu Item Q) n W c res c',
    UInv Item ditem u n W -> Qresult_gen Item ditem cu a4 u c = Some (res, c') ->
    vn res = n /\ sumw Item (vH res) + vtot res == W /\ (vk res <= umaxk u)%nat /\ (hh res + rr res <= vk res)%nat /\
    vM res = [] /\ mm res = 0%nat /\ wpos Item (vH res) /\ vgad res = false /\
    incl (sitems Item res) (sitems Item (ugad u)).
  Proof. exact (get_result_spec Item ditem cu). Qed.

  (* a union of ANY list of sketches (any k, any fill state, any order, repetitions allowed), any max_k >= 1, any draws:
     merging never throws, n and total weight are conserved, and the result has that n, that weight, k <= max_k *)
  Theorem C16_union_conserves : forall max_k ins c c2, (1 <= max_k)%nat -> valid_inputs Item ditem ins ->
    exists u c1, ufeed Item ditem cu (Quempty Item max_k) (map fst ins) c = (u, c1, true) /\
      un u = total_n Item ins /\ umaxk u = max_k /\
      sumw Item (vH (ugad u)) + vtot (ugad u) == total_w Item ins /\
      forall a4 res c3, Qresult_gen Item ditem cu a4 u c2 = Some (res, c3) ->
        vn res = total_n Item ins /\ sumw Item (vH res) + vtot res == total_w Item ins /\
        (vk res <= max_k)%nat /\ (hh res + rr res <= vk res)%nat /\ vM res = [] /\ mm res = 0%nat.
  Proof. exact (union_conserves Item ditem cu). Qed.

  (* resolve_tau: after update(sketch) with an estimation-mode sketch the outer tau is the larger of the previous outer tau
     and the sketch's tau (it is the maximum tau of the estimation-mode sketches seen); exact-mode sketches leave it alone *)
  Theorem C16_union_outer_tau : forall (u : vu Item Q) (sk : vo Item Q),
    otau_ok Item u -> Est Item ditem sk ->
    let u' := Qresolve_tau Item u sk in
    otau_ok Item u' /\ (1 <= uotd u')%nat /\
    Qtau Item sk <= Qouter_tau Item u' /\ Qouter_tau Item u <= Qouter_tau Item u' /\
    (Qouter_tau Item u' == Qtau Item sk \/ Qouter_tau Item u' == Qouter_tau Item u).
  Proof. exact (resolve_tau_spec Item ditem). Qed.

  (* serialize + deserialize of a union in any reachable state succeeds and keeps n, total weight and max_k *)
  Theorem C16_union_roundtrip : forall (u : vu Item Q) n W, UInv Item ditem u n W ->
    exists u', Quserde Item u = Some u' /\ UInv Item ditem u' n W /\ umaxk u' = umaxk u /\ un u' = un u /\
               incl (sitems Item (ugad u')) (sitems Item (ugad u)).
  Proof. exact (union_serde_spec Item ditem). Qed.

  (* EVERY union history (update(sketch) with sketches of any k and fill state, serialize/deserialize, reset, in any
     order; [uop], [urun], [ulog] in VarOptUnion.v), any max_k >= 1, any draws: nothing throws, the union's n and total
     weight are those of the sketches given since the last reset, and the result has that n, that weight, k <= max_k *)
  Theorem C16_union_history : forall max_k ops c c2, (1 <= max_k)%nat -> valid_uops Item ditem ops ->
    let n := fst (ulog Item (0%Z, 0) ops) in let W := snd (ulog Item (0%Z, 0) ops) in
    exists u c1, urun Item ditem cu (Quempty Item max_k) ops c = (u, c1, true) /\
      un u = n /\ umaxk u = max_k /\ sumw Item (vH (ugad u)) + vtot (ugad u) == W /\
      forall a4 res c3, Qresult_gen Item ditem cu a4 u c2 = Some (res, c3) ->
        vn res = n /\ sumw Item (vH res) + vtot res == W /\
        (vk res <= max_k)%nat /\ (hh res + rr res <= vk res)%nat /\ vM res = [] /\ mm res = 0%nat.
  Proof. exact (union_history Item ditem cu). Qed.

  (* the samples of a union result come from the input: every sample item (H or R) of whatever get_result returns is the
     item of an accepted update of one of the sketches given to the union since the last reset *)
  Theorem C16_union_samples_from_input : forall max_k ops c c2 a4 res c3, (1 <= max_k)%nat -> valid_uops Item ditem ops ->
    Qresult_gen Item ditem cu a4 (fst (fst (urun Item ditem cu (Quempty Item max_k) ops c))) c2 = Some (res, c3) ->
    forall x, In x (sitems Item res) -> exists w, In (x, w) (uinputs Item [] ops).
  Proof. exact (union_history_items Item ditem cu). Qed.

  (* ... and every H sample of the result is an accepted (item, weight) pair of one of those sketches WITH ITS EXACT WEIGHT
     (num_marks_in_h_ counts the marked H slots through every operation; the R samples of the inputs enter the gadget marked,
     and get_result leaves no marked slot in H) *)
  Theorem C16_union_H_exact : forall max_k ops c c2 a4 res c3, (1 <= max_k)%nat -> valid_uops Item ditem ops ->
    Qresult_gen Item ditem cu a4 (fst (fst (urun Item ditem cu (Quempty Item max_k) ops c))) c2 = Some (res, c3) ->
    forall p, In p (pairs_of Item (vH res)) -> In p (uinputs Item [] ops).
  Proof. exact (union_history_H Item ditem cu). Qed.

  (* TOTALITY: for every union history get_result returns - no throwing branch is reachable in exact arithmetic (the
     consistency check of the mark-moving coercer holds, decrease_k_by_1 is never asked to go below k = 1, the migrate loop
     terminates) - so the conclusions of C16_union_history / C16_union_result hold unconditionally *)
  Theorem C16_union_result_total : forall max_k ops c c2 a4, (1 <= max_k)%nat -> valid_uops Item ditem ops ->
    exists res c3, Qresult_gen Item ditem cu a4 (fst (fst (urun Item ditem cu (Quempty Item max_k) ops c))) c2 = Some (res, c3).
  Proof. exact (union_history_total Item ditem cu). Qed.

  Theorem C16_union_history_unconditional : forall max_k ops c c2 a4, (1 <= max_k)%nat -> valid_uops Item ditem ops ->
    let n := fst (ulog Item (0%Z, 0) ops) in let W := snd (ulog Item (0%Z, 0) ops) in
    exists u c1 res c3, urun Item ditem cu (Quempty Item max_k) ops c = (u, c1, true) /\
      Qresult_gen Item ditem cu a4 u c2 = Some (res, c3) /\
      vn res = n /\ sumw Item (vH res) + vtot res == W /\
      (vk res <= max_k)%nat /\ (hh res + rr res <= vk res)%nat /\ vM res = [] /\ mm res = 0%nat.
  Proof.
    intros max_k ops c c2 a4 Hk Hv n W.
    destruct (union_history Item ditem cu max_k ops c c2 Hk Hv) as (u & c1 & E & _ & _ & _ & Hres).
    destruct (union_history_total Item ditem cu max_k ops c c2 a4 Hk Hv) as (res & c3 & Er).
    rewrite E in Er. cbn [fst] in Er. exists u, c1, res, c3. split; [exact E|]. split; [exact Er|]. exact (Hres a4 res c3 Er).
  Qed.

  (* THE HEAVY-ITEM CLAUSE FOR UNION RESULTS, unconditionally and for all three coercers: get_result returns; the result's
     tau is at least the tau of every estimation-mode sketch given since the last reset (outer tau monotone, and the
     coercers only raise tau); and every input of those sketches heavier than the result's tau sits in the result's H region
     with its exact weight *)
  Theorem C16_union_heavy_kept : forall max_k ops c c2 a4, (1 <= max_k)%nat -> valid_uops Item ditem ops ->
    exists res c3, Qresult_gen Item ditem cu a4 (fst (fst (urun Item ditem cu (Quempty Item max_k) ops c))) c2 = Some (res, c3) /\
      (forall sk A, In (sk, A) (uupds Item [] ops) -> (1 <= rr sk)%nat -> (1 <= rr res)%nat /\ Qtau Item sk <= Qtau Item res) /\
      (forall x w, In (x, w) (uinputs Item [] ops) -> (rr res = 0%nat \/ Qtau Item res < w) -> In (x, w) (pairs_of Item (vH res))).
  Proof. exact (union_history_heavy Item ditem cu). Qed.
End Union.

(* non-vacuity: k = 3, seven updates (one refused, one ignored) and a round trip, draws 0.5 / index 1: estimation mode is reached,
   tau = 11/2, the item of weight 9 is kept exactly, the weights add up to 20 *)
Definition ex_cu (z : Z) : Q := inject_Z z / 4.
Definition ex_stream : list (hop Z) :=
  [Upd Z 1%Z 2; Upd Z 2%Z 9; Upd Z 3%Z (-(1)); Upd Z 4%Z 3; Upd Z 5%Z 0; Upd Z 6%Z 4; RoundTrip Z; Upd Z 7%Z 2].
Definition ex_draws : chs := mkchs [2; 1; 2; 1; 2; 1; 2; 1]%Z false.
Example C16_nonvacuous :
  let S := fst (hrun Z 0%Z ex_cu (Qempty Z 3 false) ex_stream ex_draws) in
  length (hlog Z [] ex_stream) = 5%nat /\ hh S = 1%nat /\ rr S = 2%nat /\
  Qeq_bool (Qtau Z S) (11 # 2) = true /\ In (2%Z, 9) (pairs_of Z (vH S)) /\
  Qeq_bool (sumw Z (vH S) + vtot S) 20 = true.
Proof. vm_compute. repeat split; auto. Qed.

(* non-vacuity of the union theorems: A (k = 2, five unit weights: estimation mode, tau = 5/2) and B (k = 4, weights 7, 3)
   into a union with max_k = 8: get_result returns (pseudo-exact shortcut: both marked items of A are still in H),
   n = 7, total weight 15, k = 4 *)
Definition ex_A : vo Z Q := fst (hrun Z 0%Z ex_cu (Qempty Z 2 false) [Upd Z 1%Z 1; Upd Z 2%Z 1; Upd Z 3%Z 1; Upd Z 4%Z 1; Upd Z 5%Z 1] ex_draws).
Definition ex_B : vo Z Q := fst (hrun Z 0%Z ex_cu (Qempty Z 4 false) [Upd Z 11%Z 7; Upd Z 12%Z 3] ex_draws).
Example C16_union_nonvacuous :
  match ufeed Z 0%Z ex_cu (Quempty Z 8) [ex_A; ex_B] ex_draws with
  | (u, c1, okb) =>
      (okb = true) /\ (un u = 7%Z) /\
      (match Qresult Z 0%Z ex_cu u c1 with
       | Some (res, _) => (vn res = 7%Z) /\ (vk res = 4%nat) /\ (hh res = 2%nat) /\ (rr res = 2%nat) /\
                          (Qeq_bool (sumw Z (vH res) + vtot res) 15 = true)
       | None => False
       end)
  end.
Proof. vm_compute. repeat split; auto. Qed.

Print Assumptions C16_history_inv.
Print Assumptions C16_union_update.
Print Assumptions C16_union_result.
Print Assumptions C16_union_conserves.
Print Assumptions C16_union_outer_tau.
Print Assumptions C16_union_roundtrip.
Print Assumptions C16_union_history.
Print Assumptions C16_union_samples_from_input.
Print Assumptions C16_union_H_exact.
Print Assumptions C16_union_result_total.
Print Assumptions C16_union_history_unconditional.
Print Assumptions C16_union_heavy_kept.
Print Assumptions C16_lifecycle_deserialize_continue.
Print Assumptions C16_counts.
Print Assumptions C16_weight.
Print Assumptions C16_tau_monotone.
Print Assumptions C16_exact_mode.
Print Assumptions C16_provenance.
Print Assumptions C16_heavy_kept.
Print Assumptions C16_samples_from_input.
Print Assumptions C16_heap.
Print Assumptions C16_update_total.
Print Assumptions C16_subset_sum.
Print Assumptions C16_subset_sum_total.
Print Assumptions C16_roundtrip.
