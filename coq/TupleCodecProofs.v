(* TupleCodecProofs.v — proofs about the Tuple sketch images (model: TupleCodecDefs.v).
   Part 1: little-endian fields and the parser combinators: every parser built from rdn / pbind / prep / enough is
           MONOTONE (success on l implies the same success on l ++ x, with x appended to the rest).
   Part 2: round trip  dec (enc s ++ rest) = Some (s, rest)  for compact_tuple_sketch (current and legacy serial
           version / sketch type bytes) and compact_array_of_doubles_sketch; image sizes.
   Part 3: generic consequence: every strict prefix of an image is rejected; accepted images have size-bounded content. *)
From Coq Require Import NArith ZArith List Bool Arith Lia.
From DS Require Import Word RunnerLib TupleCodecDefs.
Import ListNotations.
Local Open Scope N_scope.

(* ---------- little-endian fields ---------- *)
Lemma le_len k : forall x, length (N_to_le_bytes k x) = k.
Proof. induction k as [|k IH]; intros x; cbn [N_to_le_bytes length]; [reflexivity|now rewrite IH]. Qed.

Lemma w8_idem x : w8 (w8 x) = w8 x.
Proof. unfold w8. rewrite <- N.land_assoc. reflexivity. Qed.

Lemma w8_small x : x < 256 -> w8 x = x.
Proof. intros H. unfold w8. change 255 with (N.ones 8). rewrite N.land_ones. now apply N.mod_small. Qed.

Lemma lor_lo_hi x : N.lor (w8 x) (N.shiftl (N.shiftr x 8) 8) = x.
Proof.
  unfold w8. change 255 with (N.ones 8). apply N.bits_inj. intros n.
  rewrite N.lor_spec, N.land_spec.
  destruct (N.lt_ge_cases n 8) as [H|H].
  - rewrite N.shiftl_spec_low by assumption. rewrite N.ones_spec_low by assumption.
    now rewrite andb_true_r, orb_false_r.
  - rewrite N.shiftl_spec_high' by assumption. rewrite N.shiftr_spec'.
    rewrite N.ones_spec_high by assumption. rewrite andb_false_r. cbn [orb]. f_equal. lia.
Qed.

Lemma le_rt k : forall x, x < 2 ^ (8 * N.of_nat k) -> le_bytes_to_N (N_to_le_bytes k x) = x.
Proof.
  induction k as [|k IH]; intros x Hx.
  - cbn in Hx. cbn [N_to_le_bytes le_bytes_to_N]. lia.
  - cbn [N_to_le_bytes le_bytes_to_N]. rewrite w8_idem. rewrite IH.
    + apply lor_lo_hi.
    + rewrite N.shiftr_div_pow2. apply N.div_lt_upper_bound; [discriminate|].
      rewrite <- N.pow_add_r. replace (8 + 8 * N.of_nat k) with (8 * N.of_nat (S k)) by lia. exact Hx.
Qed.

Lemma len_u16 x : length (u16 x) = 2%nat. Proof. apply le_len. Qed.
Lemma len_u32 x : length (u32 x) = 4%nat. Proof. apply le_len. Qed.
Lemma len_u64 x : length (u64 x) = 8%nat. Proof. apply le_len. Qed.

(* ---------- rdn ---------- *)
Lemma rdn_enc k x r : x < 2 ^ (8 * N.of_nat k) -> rdn k (N_to_le_bytes k x ++ r) = Some (x, r).
Proof.
  intros Hx. unfold rdn. rewrite app_length, le_len.
  destruct (Nat.ltb_spec (k + length r) k) as [H|H]; [lia|].
  rewrite firstn_app, le_len, Nat.sub_diag, firstn_O, app_nil_r.
  rewrite <- (le_len k x) at 1. rewrite firstn_all.
  rewrite skipn_app, le_len, Nat.sub_diag. rewrite <- (le_len k x) at 2. rewrite skipn_all. cbn [skipn app].
  now rewrite le_rt.
Qed.

Lemma rdn1 b r : b < 256 -> rdn 1 (b :: r) = Some (b, r).
Proof.
  intros Hb. change (b :: r) with ([b] ++ r). rewrite <- (w8_small b Hb) at 1.
  change [w8 b] with (N_to_le_bytes 1 b). apply rdn_enc. exact Hb.
Qed.

Lemma rdn4z r : rdn 4 (0 :: 0 :: 0 :: 0 :: r) = Some (0, r).
Proof. reflexivity. Qed.

Lemma rdn_len k l v r : rdn k l = Some (v, r) -> length l = (k + length r)%nat.
Proof.
  unfold rdn. destruct (Nat.ltb_spec (length l) k) as [H|H]; [discriminate|]. intros E. inversion E; subst.
  rewrite skipn_length. lia.
Qed.

(* ---------- monotone parsers ---------- *)
Definition mono {A} (p : parser A) : Prop :=
  forall l v r x, p l = Some (v, r) -> p (l ++ x) = Some (v, r ++ x).

Lemma mono_ret {A} (a : A) : mono (pret a).
Proof. intros l v r x H. unfold pret in *. inversion H; subst. reflexivity. Qed.

Lemma mono_fail {A} : mono (@pfail A).
Proof. intros l v r x H. discriminate. Qed.

Lemma mono_bind {A B} (p : parser A) (f : A -> parser B) : mono p -> (forall a, mono (f a)) -> mono (pbind p f).
Proof.
  intros Hp Hf l v r x H. unfold pbind in *. destruct (p l) as [[a r0]|] eqn:E; [|discriminate].
  rewrite (Hp _ _ _ x E). now apply Hf.
Qed.

Lemma mono_rdn k : mono (rdn k).
Proof.
  intros l v r x H. unfold rdn in *. destruct (Nat.ltb_spec (length l) k) as [Hl|Hl]; [discriminate|].
  inversion H; subst. rewrite app_length. destruct (Nat.ltb_spec (length l + length x) k) as [H2|H2]; [lia|].
  rewrite firstn_app. replace (k - length l)%nat with 0%nat by lia. rewrite firstn_O, app_nil_r.
  rewrite skipn_app. replace (k - length l)%nat with 0%nat by lia. reflexivity.
Qed.

Lemma mono_enough n sz : mono (enough n sz).
Proof.
  intros l v r x H. unfold enough in *. destruct (N.ltb_spec (N.of_nat (length l)) (n * sz)) as [Hl|Hl]; [discriminate|].
  inversion H; subst. rewrite app_length. destruct (N.ltb_spec (N.of_nat (length r + length x)) (n * sz)); [lia|reflexivity].
Qed.

Lemma mono_prep {A} n (p : parser A) : mono p -> mono (prep n p).
Proof.
  intros Hp. induction n as [|n IH]; cbn [prep]; [apply mono_ret|].
  apply mono_bind; [exact Hp|]. intros a. apply mono_bind; [exact IH|]. intros b. apply mono_ret.
Qed.

Lemma mono_if {A} (b : bool) (p q : parser A) : mono p -> mono q -> mono (if b then p else q).
Proof. destruct b; auto. Qed.

Ltac mono_tac :=
  repeat first [ apply mono_ret | apply mono_fail | apply mono_rdn | apply mono_enough
               | apply mono_prep | apply mono_if | (apply mono_bind; [|intros ?]) ].

Lemma mono_dec_entry sw : mono (dec_entry sw).
Proof. unfold dec_entry. mono_tac. Qed.

Lemma mono_guard {A} (ok : A -> bool) (p : parser A) : mono p -> mono (guard ok p).
Proof.
  intros Hp l v r x H. unfold guard in *. destruct (p l) as [[a r0]|] eqn:E; [|discriminate].
  rewrite (Hp _ _ _ x E). destruct (ok a); [|discriminate]. inversion H; subst. reflexivity.
Qed.

Theorem mono_dec_t_core sw : mono (dec_t_core sw).
Proof. unfold dec_t_core. mono_tac; apply mono_dec_entry. Qed.

Theorem mono_dec_t sw e : mono (dec_t sw e).
Proof. apply mono_guard, mono_dec_t_core. Qed.

Theorem mono_dec_a_core : mono dec_a_core.
Proof. unfold dec_a_core. mono_tac. Qed.

Theorem mono_dec_a e : mono (dec_a e).
Proof.
  intros l v r x H. unfold dec_a in *.
  destruct (guard (fun x0 => negb (snd x0) || (a_sh (fst x0) =? e)) dec_a_core l) as [[a r0]|] eqn:E; [|discriminate].
  rewrite (mono_guard _ _ mono_dec_a_core _ _ _ x E). inversion H; subst. reflexivity.
Qed.

(* ---------- generic consequences of monotonicity ---------- *)
(* an image that decodes with nothing left over: no strict prefix of it decodes *)
Theorem prefix_rejected {A} (p : parser A) img s n : mono p -> p img = Some (s, []) -> (n < length img)%nat ->
  p (firstn n img) = None.
Proof.
  intros Hm Hd Hn. destruct (p (firstn n img)) as [[s' r']|] eqn:E; [|reflexivity]. exfalso.
  apply (Hm _ _ _ (skipn n img)) in E. rewrite firstn_skipn, Hd in E. inversion E.
  assert (L : length (skipn n img) = 0%nat).
  { destruct r'; [|discriminate]. simpl in H1. rewrite <- H1. reflexivity. }
  rewrite skipn_length in L. lia.
Qed.

(* ---------- consumed lengths ---------- *)
Lemma prep_len {A} (p : parser A) c : (forall l v r, p l = Some (v, r) -> length l = (c + length r)%nat) ->
  forall n l vs r, prep n p l = Some (vs, r) -> length l = (n * c + length r)%nat /\ length vs = n.
Proof.
  intros Hp. induction n as [|n IH]; intros l vs r H; cbn [prep] in H.
  - unfold pret in H. inversion H; subst. simpl. split; reflexivity.
  - unfold pbind in H. destruct (p l) as [[a r0]|] eqn:E; [|discriminate].
    destruct (prep n p r0) as [[b r1]|] eqn:E2; [|discriminate]. unfold pret in H. inversion H; subst.
    apply Hp in E. destruct (IH _ _ _ E2) as [L1 L2]. simpl. split; lia.
Qed.

Lemma dec_entry_len sw l v r : dec_entry sw l = Some (v, r) -> length l = ((8 + sw) + length r)%nat.
Proof.
  unfold dec_entry, pbind, pret. destruct (rdn 8 l) as [[k r0]|] eqn:E; [|discriminate].
  destruct (rdn sw r0) as [[w r1]|] eqn:E2; [|discriminate]. intros H. inversion H; subst.
  apply rdn_len in E. apply rdn_len in E2. lia.
Qed.

(* ---------- compact_tuple_sketch: round trip ---------- *)
Definition two64 : N := 2 ^ 64.

Definition wf_t (sw : nat) (s : tsk) : Prop :=
  t_sh s < 65536 /\ t_theta s <= MAXT /\ N.of_nat (length (t_ents s)) < 2 ^ 32 /\
  Forall (fun e => fst e < two64 /\ snd e < 2 ^ (8 * N.of_nat sw)) (t_ents s) /\
  (t_empty s = true -> t_ents s = [] /\ t_theta s = MAXT) /\
  ((length (t_ents s) <= 1)%nat -> t_ordered s = true).

(* the writer with the serial version / sketch type bytes as parameters: (3, 1) is serialize(), 1 and 5 are the
   legacy values the reader accepts *)
Definition enc_tv (ver typ : N) (sw : nat) (s : tsk) : list N :=
  [t_pre s; ver; 9; typ; 0; t_flags s] ++ u16 (t_sh s) ++
  (if 1 <? t_pre s then u32 (t_n s) ++ [0; 0; 0; 0] else []) ++
  (if t_est s then u64 (t_theta s) else []) ++
  flat_map (enc_entry sw) (t_ents s).

Lemma enc_t_tv sw s : enc_t sw s = enc_tv 3 1 sw s.
Proof. reflexivity. Qed.

Lemma flags_bits s : t_flags s < 256 /\ N.testbit (t_flags s) 2 = t_empty s /\ N.testbit (t_flags s) 4 = t_ordered s.
Proof. unfold t_flags. destruct (t_empty s), (t_ordered s); vm_compute; repeat split; reflexivity. Qed.

Lemma pre_cases s : (t_pre s = 1 \/ t_pre s = 2 \/ t_pre s = 3) /\ t_pre s < 256.
Proof. unfold t_pre. destruct (t_est s); [|destruct (t_empty s || (t_n s =? 1))]; split; auto; reflexivity. Qed.

Lemma entries_rt sw ents rest : Forall (fun e => fst e < two64 /\ snd e < 2 ^ (8 * N.of_nat sw)) ents ->
  prep (length ents) (dec_entry sw) (flat_map (enc_entry sw) ents ++ rest) = Some (ents, rest).
Proof.
  induction 1 as [|[k v] ents [Hk Hv] Hf IH]; [reflexivity|].
  cbn [length prep flat_map]. unfold pbind at 1. unfold dec_entry at 1, pbind at 1. unfold enc_entry at 1. cbn [fst snd].
  rewrite <- !app_assoc. unfold u64. rewrite rdn_enc by exact Hk. unfold pbind at 1. rewrite rdn_enc by exact Hv.
  unfold pret at 1. unfold pbind. rewrite IH. reflexivity.
Qed.

Lemma entries_len sw ents : length (flat_map (enc_entry sw) ents) = (length ents * (8 + sw))%nat.
Proof.
  induction ents as [|e ents IH]; [reflexivity|]. cbn [flat_map length]. rewrite app_length, IH.
  unfold enc_entry. rewrite app_length. unfold u64. rewrite !le_len. lia.
Qed.

Theorem tuple_roundtrip_core ver typ sw s rest : (ver = 3 \/ ver = 1) -> (typ = 1 \/ typ = 5) -> wf_t sw s ->
  dec_t_core sw (enc_tv ver typ sw s ++ rest) = Some (s, rest).
Proof.
  intros Hver Htyp (Hsh & Hth & Hn & Hents & Hemp & Hord).
  destruct (flags_bits s) as (Hfl & Hb2 & Hb4). destruct (pre_cases s) as [Hpre Hpre256].
  assert (Hv256 : ver < 256) by (destruct Hver; subst; reflexivity).
  assert (Ht256 : typ < 256) by (destruct Htyp; subst; reflexivity).
  unfold dec_t_core, enc_tv. cbn [app]. unfold pbind at 1. rewrite rdn1 by exact Hpre256.
  unfold pbind at 1. rewrite rdn1 by exact Hv256.
  unfold pbind at 1. rewrite rdn1 by reflexivity.
  unfold pbind at 1. rewrite rdn1 by exact Ht256.
  unfold pbind at 1. rewrite rdn1 by reflexivity.
  unfold pbind at 1. rewrite rdn1 by exact Hfl.
  unfold pbind at 1. rewrite <- app_assoc. unfold u16. rewrite rdn_enc by exact Hsh.
  assert (E1 : negb ((ver =? 3) || (ver =? 1)) = false) by (destruct Hver; subst; reflexivity).
  assert (E2 : negb ((typ =? 1) || (typ =? 5)) = false) by (destruct Htyp; subst; reflexivity).
  rewrite E1, E2. change (negb (9 =? 9)) with false. cbv iota. rewrite Hb2, Hb4.
  destruct s as [e o sh th ents]. cbn [t_empty t_ordered t_sh t_theta t_ents] in *.
  unfold t_pre, t_est, t_n in *. cbn [t_empty t_ordered t_sh t_theta t_ents] in *.
  destruct e.
  - (* empty *)
    destruct (Hemp eq_refl) as [-> ->]. rewrite andb_false_r. cbn [orb N.ltb N.compare app flat_map].
    unfold pret, mk_t. cbn [length Nat.leb orb]. rewrite (Hord (Nat.le_0_l 1)). rewrite orb_true_r. reflexivity.
  - rewrite andb_true_r. cbn [orb].
    destruct (th <? MAXT) eqn:Eest.
    + (* estimation mode: 3 preamble longs *)
      change (1 <? 3) with true. change (3 =? 1) with false. cbv iota. rewrite <- !app_assoc.
      unfold pbind at 1. unfold u32. rewrite rdn_enc by exact Hn.
      unfold pbind at 1. change [0; 0; 0; 0] with (N_to_le_bytes 4 0). rewrite rdn_enc by reflexivity.
      change (2 <? 3) with true. cbv iota. unfold pbind at 1. unfold u64. rewrite rdn_enc by (apply N.ltb_lt in Eest; unfold two64, MAXT in *; lia).
      unfold pbind at 1. unfold enough. rewrite app_length, entries_len.
      destruct (N.ltb_spec (N.of_nat (length ents * (8 + sw) + length rest)) (N.of_nat (length ents) * 8)) as [H|H]; [lia|].
      unfold pbind at 1. rewrite Nat2N.id. rewrite entries_rt by exact Hents.
      unfold pret, mk_t. destruct o; [reflexivity|]. cbn [orb].
      destruct (Nat.leb_spec (length ents) 1) as [H1|H1]; [now rewrite (Hord H1)|reflexivity].
    + (* exact mode *)
      assert (Hthm : th = MAXT) by (apply N.ltb_ge in Eest; lia). subst th.
      destruct (N.of_nat (length ents) =? 1) eqn:E1n.
      * (* single entry: one preamble long *)
        apply N.eqb_eq in E1n. destruct ents as [|e0 [|e1 ents]]; try (cbn in E1n; lia).
        change (1 <? 1) with false. change (1 =? 1) with true. cbv iota. cbn [app].
        unfold pbind at 1. replace (flat_map (enc_entry sw) [e0] ++ rest) with (flat_map (enc_entry sw) [e0] ++ rest) by reflexivity.
        pose proof (entries_rt sw [e0] rest Hents) as R. cbn [length prep] in R. unfold pbind at 1 in R.
        destruct (dec_entry sw (flat_map (enc_entry sw) [e0] ++ rest)) as [[a r0]|] eqn:Ed; [|discriminate].
        unfold pbind, pret in R. inversion R; subst. unfold pret, mk_t. cbn [length Nat.leb orb].
        rewrite (Hord (Nat.le_refl 1)). rewrite orb_true_r. reflexivity.
      * change (1 <? 2) with true. change (2 =? 1) with false. cbv iota. rewrite <- !app_assoc.
        unfold pbind at 1. unfold u32. rewrite rdn_enc by exact Hn.
        unfold pbind at 1. change [0; 0; 0; 0] with (N_to_le_bytes 4 0). rewrite rdn_enc by reflexivity.
        change (2 <? 2) with false. cbv iota. unfold pbind at 1. unfold pret at 1. cbn [app].
        unfold pbind at 1. unfold enough. rewrite app_length, entries_len.
        destruct (N.ltb_spec (N.of_nat (length ents * (8 + sw) + length rest)) (N.of_nat (length ents) * 8)) as [H|H]; [lia|].
        unfold pbind at 1. rewrite Nat2N.id. rewrite entries_rt by exact Hents.
        unfold pret, mk_t. destruct o; [reflexivity|]. cbn [orb].
        destruct (Nat.leb_spec (length ents) 1) as [H1|H1]; [now rewrite (Hord H1)|reflexivity].
Qed.

Theorem tuple_roundtrip ver typ sw s rest : (ver = 3 \/ ver = 1) -> (typ = 1 \/ typ = 5) -> wf_t sw s ->
  dec_t sw (t_sh s) (enc_tv ver typ sw s ++ rest) = Some (s, rest).
Proof.
  intros Hv Ht Hwf. unfold dec_t, guard. rewrite (tuple_roundtrip_core ver typ sw s rest Hv Ht Hwf).
  rewrite N.eqb_refl, orb_true_r. reflexivity.
Qed.

(* image size *)
Theorem tuple_size sw s : wf_t sw s -> N.of_nat (length (enc_t sw s)) = size_t sw s.
Proof.
  intros (_ & Hth & _ & _ & Hemp & _). unfold enc_t, size_t. rewrite !app_length, entries_len. cbn [length].
  unfold u16. rewrite le_len. unfold t_pre, t_est, t_n.
  destruct (t_empty s) eqn:Ee.
  - destruct (Hemp eq_refl) as [E1 E2]. rewrite E1. rewrite andb_false_r. cbn [orb negb].
    change (1 <? 1) with false. cbv iota. cbn [length]. lia.
  - rewrite andb_true_r. cbn [orb negb]. destruct (t_theta s <? MAXT).
    + change (1 <? 3) with true. cbv iota. rewrite app_length. unfold u32, u64. rewrite !le_len. cbn [length]. lia.
    + destruct (N.of_nat (length (t_ents s)) =? 1).
      * change (1 <? 1) with false. cbv iota. cbn [length]. lia.
      * change (1 <? 2) with true. cbv iota. rewrite app_length. unfold u32. rewrite le_len. cbn [length]. lia.
Qed.

(* ---------- compact_array_of_doubles_sketch: round trip ---------- *)
Definition wf_a (s : ask) : Prop :=
  a_sh s < 65536 /\ a_theta s < two64 /\ a_nv s < 256 /\ N.of_nat (length (a_ents s)) < 2 ^ 32 /\
  Forall (fun e => fst e < two64 /\ length (snd e) = N.to_nat (a_nv s) /\ Forall (fun v => v < two64) (snd e)) (a_ents s) /\
  ((length (a_ents s) <= 1)%nat -> a_ordered s = true).

Lemma aflags_bits s : a_flags s < 256 /\ N.testbit (a_flags s) 2 = a_empty s /\
  N.testbit (a_flags s) 3 = (0 <? a_n s) /\ N.testbit (a_flags s) 4 = a_ordered s.
Proof. unfold a_flags. destruct (a_empty s), (0 <? a_n s), (a_ordered s); vm_compute; repeat split; reflexivity. Qed.

Lemma keys_rt (ents : list (N * list N)) rest : Forall (fun e => fst e < two64) ents ->
  prep (length ents) (rdn 8) (flat_map (fun e => u64 (fst e)) ents ++ rest) = Some (map fst ents, rest).
Proof.
  induction 1 as [|e ents Hk Hf IH]; [reflexivity|]. cbn [length prep flat_map map].
  rewrite <- app_assoc. unfold pbind at 1. unfold u64 at 1. rewrite rdn_enc by exact Hk.
  unfold pbind. rewrite IH. reflexivity.
Qed.

Lemma row_rt (row : list N) rest : Forall (fun v => v < two64) row ->
  prep (length row) (rdn 8) (flat_map u64 row ++ rest) = Some (row, rest).
Proof.
  induction 1 as [|v row Hv Hf IH]; [reflexivity|]. cbn [length prep flat_map].
  rewrite <- app_assoc. unfold pbind at 1. unfold u64 at 1. rewrite rdn_enc by exact Hv.
  unfold pbind. rewrite IH. reflexivity.
Qed.

Lemma rows_rt nv (ents : list (N * list N)) rest :
  Forall (fun e => length (snd e) = nv /\ Forall (fun v => v < two64) (snd e)) ents ->
  prep (length ents) (prep nv (rdn 8)) (flat_map (fun e => flat_map u64 (snd e)) ents ++ rest) = Some (map snd ents, rest).
Proof.
  induction 1 as [|e ents [Hl Hv] Hf IH]; [reflexivity|]. cbn [length prep flat_map map].
  rewrite <- app_assoc. unfold pbind at 1. rewrite <- Hl. rewrite row_rt by exact Hv.
  unfold pbind. rewrite Hl, IH. reflexivity.
Qed.

Lemma combine_fst_snd {A B} (l : list (A * B)) : combine (map fst l) (map snd l) = l.
Proof. induction l as [|[a b] l IH]; simpl; [reflexivity|now rewrite IH]. Qed.

Lemma keys_len (ents : list (N * list N)) : length (flat_map (fun e => u64 (fst e)) ents) = (8 * length ents)%nat.
Proof. induction ents as [|e l IH]; [reflexivity|]. cbn [flat_map length]. rewrite app_length, IH. unfold u64. rewrite le_len. lia. Qed.

Lemma rows_len nv (ents : list (N * list N)) : Forall (fun e => length (snd e) = nv) ents ->
  length (flat_map (fun e => flat_map u64 (snd e)) ents) = (8 * nv * length ents)%nat.
Proof.
  induction 1 as [|e l He Hf IH]; [simpl; lia|]. cbn [flat_map length]. rewrite app_length, IH.
  assert (L : forall row, length (flat_map u64 row) = (8 * length row)%nat).
  { induction row as [|v row IHr]; [reflexivity|]. cbn [flat_map]. rewrite app_length, IHr. unfold u64. rewrite le_len. simpl. lia. }
  rewrite L, He. lia.
Qed.

Theorem array_roundtrip_core s rest : wf_a s -> dec_a_core (enc_a s ++ rest) = Some ((s, 0 <? a_n s), rest).
Proof.
  intros (Hsh & Hth & Hnv & Hn & Hents & Hord).
  destruct (aflags_bits s) as (Hfl & Hb2 & Hb3 & Hb4).
  unfold dec_a_core, enc_a. cbn [app]. unfold pbind at 1. rewrite rdn1 by reflexivity.
  unfold pbind at 1. rewrite rdn1 by reflexivity.
  unfold pbind at 1. rewrite rdn1 by reflexivity.
  unfold pbind at 1. rewrite rdn1 by reflexivity.
  unfold pbind at 1. rewrite rdn1 by exact Hfl.
  unfold pbind at 1. rewrite rdn1 by exact Hnv.
  unfold pbind at 1. rewrite <- app_assoc. unfold u16. rewrite rdn_enc by exact Hsh.
  change (negb (1 =? 1)) with false. change (negb (9 =? 9)) with false. change (negb (3 =? 3)) with false. cbv iota.
  rewrite <- app_assoc.
  unfold pbind at 1. unfold u64 at 1. rewrite rdn_enc by exact Hth.
  rewrite Hb2, Hb3, Hb4.
  destruct s as [e o sh th nv ents]. unfold a_n in *. cbn [a_empty a_ordered a_sh a_theta a_nv a_ents] in *.
  destruct (0 <? N.of_nat (length ents)) eqn:En.
  - rewrite <- !app_assoc. unfold pbind at 1. unfold u32. rewrite rdn_enc by exact Hn.
    cbn [app]. unfold pbind at 1. rewrite rdn4z. rewrite <- app_assoc.
    assert (Hk : Forall (fun e => fst e < two64) ents) by (eapply Forall_impl; [|exact Hents]; intros a H; cbv beta in *; tauto).
    assert (Hr : Forall (fun e => length (snd e) = N.to_nat nv /\ Forall (fun v => v < two64) (snd e)) ents)
      by (eapply Forall_impl; [|exact Hents]; intros a H; cbv beta in *; tauto).
    assert (Hr' : Forall (fun e => length (snd e) = N.to_nat nv) ents) by (eapply Forall_impl; [|exact Hr]; intros a H; cbv beta in *; tauto).
    unfold pbind at 1. unfold enough. rewrite !app_length, keys_len, (rows_len _ _ Hr').
    destruct (N.ltb_spec (N.of_nat (8 * length ents + (8 * N.to_nat nv * length ents + length rest)))
                         (N.of_nat (length ents) * (8 + 8 * nv))) as [H|H]; [lia|].
    unfold pbind at 1. rewrite Nat2N.id. rewrite keys_rt by exact Hk.
    unfold pbind at 1. rewrite rows_rt by exact Hr.
    unfold pret, mk_a. rewrite combine_fst_snd. destruct o; [reflexivity|]. cbn [orb].
    destruct (Nat.leb_spec (length ents) 1) as [H1|H1]; [now rewrite (Hord H1)|reflexivity].
  - apply N.ltb_ge in En. destruct ents; [|cbn in En; lia]. cbn [app].
    unfold pret, mk_a. cbn [length Nat.leb orb]. rewrite (Hord (Nat.le_0_l 1)). rewrite orb_true_r. reflexivity.
Qed.

Theorem array_roundtrip s rest : wf_a s -> dec_a (a_sh s) (enc_a s ++ rest) = Some (s, rest).
Proof.
  intros Hwf. unfold dec_a, guard. rewrite (array_roundtrip_core s rest Hwf). cbn [fst snd].
  rewrite N.eqb_refl, orb_true_r. reflexivity.
Qed.

Theorem array_size s : wf_a s -> N.of_nat (length (enc_a s)) = size_a s.
Proof.
  intros (_ & _ & _ & _ & Hents & _). unfold enc_a, size_a. rewrite !app_length. cbn [length].
  rewrite len_u16, len_u64. unfold a_n.
  assert (Hr' : Forall (fun e => length (snd e) = N.to_nat (a_nv s)) (a_ents s)) by (eapply Forall_impl; [|exact Hents]; intros a H; cbv beta in *; tauto).
  destruct (0 <? N.of_nat (length (a_ents s))) eqn:En.
  - rewrite !app_length, keys_len, (rows_len _ _ Hr'), len_u32. cbn [length]. lia.
  - apply N.ltb_ge in En. cbn [length]. lia.
Qed.

(* ---------- strict prefixes, both readers, any expected seed hash ---------- *)
Theorem tuple_prefix_rejected ver typ sw s e n : (ver = 3 \/ ver = 1) -> (typ = 1 \/ typ = 5) -> wf_t sw s ->
  (n < length (enc_tv ver typ sw s))%nat -> dec_t sw e (firstn n (enc_tv ver typ sw s)) = None.
Proof.
  intros Hv Ht Hwf Hn. pose proof (tuple_roundtrip_core ver typ sw s [] Hv Ht Hwf) as R. rewrite app_nil_r in R.
  unfold dec_t, guard. now rewrite (prefix_rejected _ _ _ n (mono_dec_t_core sw) R Hn).
Qed.

Theorem array_prefix_rejected s e n : wf_a s -> (n < length (enc_a s))%nat -> dec_a e (firstn n (enc_a s)) = None.
Proof.
  intros Hwf Hn. pose proof (array_roundtrip_core s [] Hwf) as R. rewrite app_nil_r in R.
  unfold dec_a, guard. now rewrite (prefix_rejected _ _ _ n mono_dec_a_core R Hn).
Qed.

(* ---------- accepted images have size-bounded content ---------- *)
Theorem tuple_accept_bound sw e l s r : dec_t sw e l = Some (s, r) ->
  (8 + length (t_ents s) * (8 + sw) + length r <= length l)%nat.
Proof.
  unfold dec_t, guard. destruct (dec_t_core sw l) as [[s0 r0]|] eqn:E; [|discriminate].
  destruct (t_empty s0 || (t_sh s0 =? e)); [|discriminate]. intros H. inversion H; subst. clear H.
  revert E. unfold dec_t_core, pbind.
  destruct (rdn 1 l) as [[pl l1]|] eqn:E1; [|discriminate]. destruct (rdn 1 l1) as [[ver l2]|] eqn:E2; [|discriminate].
  destruct (rdn 1 l2) as [[fam l3]|] eqn:E3; [|discriminate]. destruct (rdn 1 l3) as [[typ l4]|] eqn:E4; [|discriminate].
  destruct (rdn 1 l4) as [[un l5]|] eqn:E5; [|discriminate]. destruct (rdn 1 l5) as [[fl l6]|] eqn:E6; [|discriminate].
  destruct (rdn 2 l6) as [[sh l7]|] eqn:E7; [|discriminate].
  apply rdn_len in E1, E2, E3, E4, E5, E6, E7.
  destruct (negb ((ver =? 3) || (ver =? 1))); [discriminate|]. destruct (negb (fam =? 9)); [discriminate|].
  destruct (negb ((typ =? 1) || (typ =? 5))); [discriminate|].
  destruct (N.testbit fl 2).
  { unfold pret. intros H. inversion H; subst. cbn [t_ents mk_t length]. lia. }
  destruct (pl =? 1).
  { destruct (dec_entry sw l7) as [[e0 l8]|] eqn:E8; [|discriminate]. apply dec_entry_len in E8.
    unfold pret. intros H. inversion H; subst. cbn [t_ents mk_t length]. lia. }
  destruct (rdn 4 l7) as [[n l8]|] eqn:E8; [|discriminate]. destruct (rdn 4 l8) as [[u l9]|] eqn:E9; [|discriminate].
  apply rdn_len in E8, E9.
  assert (Hth : forall (p : parser N) th l10, p = (if 2 <? pl then rdn 8 else pret MAXT) -> p l9 = Some (th, l10) -> (length l10 <= length l9)%nat).
  { intros p th l10 -> Hp. destruct (2 <? pl); [apply rdn_len in Hp; lia|unfold pret in Hp; inversion Hp; subst; lia]. }
  destruct ((if 2 <? pl then rdn 8 else pret MAXT) l9) as [[th l10]|] eqn:E10; [|discriminate].
  apply (Hth _ _ _ eq_refl) in E10.
  unfold enough. destruct (N.of_nat (length l10) <? n * 8); [discriminate|].
  destruct (prep (N.to_nat n) (dec_entry sw) l10) as [[ents l11]|] eqn:E11; [|discriminate].
  destruct (prep_len (dec_entry sw) (8 + sw) (dec_entry_len sw) _ _ _ _ E11) as [L1 L2].
  unfold pret. intros H. inversion H; subst. cbn [t_ents mk_t]. rewrite L2. lia.
Qed.

Theorem array_accept_bound e l s r : dec_a e l = Some (s, r) ->
  (16 + length (a_ents s) * (8 + 8 * N.to_nat (a_nv s)) + length r <= length l)%nat.
Proof.
  unfold dec_a, guard. destruct (dec_a_core l) as [[[s0 h] r0]|] eqn:E; [|discriminate]. cbn [fst snd].
  destruct (negb h || (a_sh s0 =? e)); [|discriminate]. intros H. inversion H; subst. clear H.
  revert E. unfold dec_a_core, pbind.
  destruct (rdn 1 l) as [[pl l1]|] eqn:E1; [|discriminate]. destruct (rdn 1 l1) as [[ver l2]|] eqn:E2; [|discriminate].
  destruct (rdn 1 l2) as [[fam l3]|] eqn:E3; [|discriminate]. destruct (rdn 1 l3) as [[typ l4]|] eqn:E4; [|discriminate].
  destruct (rdn 1 l4) as [[fl l5]|] eqn:E5; [|discriminate]. destruct (rdn 1 l5) as [[nv l6]|] eqn:E6; [|discriminate].
  destruct (rdn 2 l6) as [[sh l7]|] eqn:E7; [|discriminate].
  apply rdn_len in E1, E2, E3, E4, E5, E6, E7.
  destruct (negb (ver =? 1)); [discriminate|]. destruct (negb (fam =? 9)); [discriminate|]. destruct (negb (typ =? 3)); [discriminate|].
  destruct (rdn 8 l7) as [[th l8]|] eqn:E8; [|discriminate]. apply rdn_len in E8.
  destruct (N.testbit fl 3).
  - destruct (rdn 4 l8) as [[n l9]|] eqn:E9; [|discriminate]. destruct (rdn 4 l9) as [[u l10]|] eqn:E10; [|discriminate].
    apply rdn_len in E9, E10. unfold enough. destruct (N.of_nat (length l10) <? n * (8 + 8 * nv)); [discriminate|].
    destruct (prep (N.to_nat n) (rdn 8) l10) as [[keys l11]|] eqn:E11; [|discriminate].
    destruct (prep (N.to_nat n) (prep (N.to_nat nv) (rdn 8)) l11) as [[rows l12]|] eqn:E12; [|discriminate].
    destruct (prep_len (rdn 8) 8 (rdn_len 8) _ _ _ _ E11) as [K1 K2].
    assert (Hrow : forall l v r, prep (N.to_nat nv) (rdn 8) l = Some (v, r) -> length l = (N.to_nat nv * 8 + length r)%nat).
    { intros l0 v r0 H. now destruct (prep_len (rdn 8) 8 (rdn_len 8) _ _ _ _ H). }
    destruct (prep_len (prep (N.to_nat nv) (rdn 8)) (N.to_nat nv * 8) Hrow _ _ _ _ E12) as [R1 R2].
    unfold pret. intros H. inversion H; subst. cbn [a_ents a_nv mk_a]. rewrite combine_length, K2, R2, Nat.min_id. lia.
  - unfold pret. intros H. inversion H; subst. cbn [a_ents a_nv mk_a length]. lia.
Qed.

(* ---------- documented layout: fields at their offsets ---------- *)
Lemma tuple_preamble sw s : firstn 8 (enc_t sw s) = [t_pre s; 3; 9; 1; 0; t_flags s] ++ u16 (t_sh s).
Proof. reflexivity. Qed.

Lemma tuple_after_preamble sw s : skipn 8 (enc_t sw s) =
  (if 1 <? t_pre s then u32 (t_n s) ++ [0; 0; 0; 0] else []) ++ (if t_est s then u64 (t_theta s) else []) ++
  flat_map (enc_entry sw) (t_ents s).
Proof. reflexivity. Qed.

Lemma tuple_count_field sw s : (1 <? t_pre s) = true -> firstn 8 (skipn 8 (enc_t sw s)) = u32 (t_n s) ++ [0; 0; 0; 0].
Proof. intros H. rewrite tuple_after_preamble, H. reflexivity. Qed.

Lemma est_pre s : t_est s = true -> t_pre s = 3.
Proof. unfold t_pre. now intros ->. Qed.

Lemma tuple_theta_field sw s : t_est s = true -> firstn 8 (skipn 16 (enc_t sw s)) = u64 (t_theta s).
Proof.
  intros H. change (skipn 16 (enc_t sw s)) with (skipn 8 (skipn 8 (enc_t sw s))).
  rewrite tuple_after_preamble, (est_pre s H), H. reflexivity.
Qed.

Lemma tuple_entries_offset sw s : skipn (N.to_nat (8 * t_pre s)) (enc_t sw s) = flat_map (enc_entry sw) (t_ents s).
Proof.
  unfold t_pre. destruct (t_est s) eqn:Ee.
  - change (N.to_nat (8 * 3)) with 24%nat. change (skipn 24 (enc_t sw s)) with (skipn 16 (skipn 8 (enc_t sw s))).
    rewrite tuple_after_preamble, (est_pre s Ee), Ee. reflexivity.
  - destruct (t_empty s || (t_n s =? 1)) eqn:E1.
    + change (N.to_nat (8 * 1)) with 8%nat. rewrite tuple_after_preamble. unfold t_pre. rewrite Ee, E1. reflexivity.
    + change (N.to_nat (8 * 2)) with 16%nat. change (skipn 16 (enc_t sw s)) with (skipn 8 (skipn 8 (enc_t sw s))).
      rewrite tuple_after_preamble. unfold t_pre. rewrite Ee, E1. reflexivity.
Qed.

Lemma tuple_flag_bits s :
  N.testbit (t_flags s) 0 = false /\ N.testbit (t_flags s) 1 = true /\ N.testbit (t_flags s) 2 = t_empty s /\
  N.testbit (t_flags s) 3 = true /\ N.testbit (t_flags s) 4 = t_ordered s /\ t_flags s < 32.
Proof. unfold t_flags. destruct (t_empty s), (t_ordered s); vm_compute; repeat split; reflexivity. Qed.

Lemma array_preamble s : firstn 16 (enc_a s) = [1; 1; 9; 3; a_flags s; a_nv s] ++ u16 (a_sh s) ++ u64 (a_theta s).
Proof. reflexivity. Qed.

Lemma array_after_preamble s : skipn 16 (enc_a s) =
  if 0 <? a_n s then u32 (a_n s) ++ [0; 0; 0; 0] ++ flat_map (fun e => u64 (fst e)) (a_ents s) ++
                     flat_map (fun e => flat_map u64 (snd e)) (a_ents s)
  else [].
Proof. reflexivity. Qed.

Lemma array_count_field s : (0 <? a_n s) = true -> firstn 8 (skipn 16 (enc_a s)) = u32 (a_n s) ++ [0; 0; 0; 0].
Proof. intros H. rewrite array_after_preamble, H. reflexivity. Qed.

Lemma array_keys_offset s : (0 <? a_n s) = true ->
  skipn 24 (enc_a s) = flat_map (fun e => u64 (fst e)) (a_ents s) ++ flat_map (fun e => flat_map u64 (snd e)) (a_ents s).
Proof.
  intros H. change (skipn 24 (enc_a s)) with (skipn 8 (skipn 16 (enc_a s))). rewrite array_after_preamble, H. reflexivity.
Qed.

Lemma skipn_add {A} a b (l : list A) : skipn (a + b) l = skipn b (skipn a l).
Proof. revert l. induction a as [|a IH]; intros l; [reflexivity|]. destruct l; [now destruct b|]. apply IH. Qed.

Lemma array_rows_offset s : (0 <? a_n s) = true ->
  skipn (24 + 8 * length (a_ents s)) (enc_a s) = flat_map (fun e => flat_map u64 (snd e)) (a_ents s).
Proof.
  intros H. rewrite skipn_add, (array_keys_offset s H). rewrite <- (keys_len (a_ents s)).
  rewrite skipn_app, skipn_all, Nat.sub_diag. reflexivity.
Qed.

Lemma array_flag_bits s : N.testbit (a_flags s) 2 = a_empty s /\ N.testbit (a_flags s) 3 = (0 <? a_n s) /\
  N.testbit (a_flags s) 4 = a_ordered s /\ a_flags s < 32.
Proof. unfold a_flags. destruct (a_empty s), (0 <? a_n s), (a_ordered s); vm_compute; repeat split; reflexivity. Qed.

(* ---------- the sketches of the C13 model have well-formed images ---------- *)
Lemma z_to_u64_lt z : z_to_u64 z < two64.
Proof.
  unfold z_to_u64, two64. change (2 ^ 64) with (Z.to_N 18446744073709551616).
  pose proof (Z.mod_pos_bound z 18446744073709551616 eq_refl). apply Z2N.inj_lt; lia.
Qed.

Lemma firstn_len_app {A} (a b : list A) : firstn (length a) (a ++ b) = a.
Proof. induction a as [|x a IH]; simpl; [now destruct b|now rewrite IH]. Qed.

Lemma skipn_len_app {A} (a b : list A) : skipn (length a) (a ++ b) = b.
Proof. induction a as [|x a IH]; simpl; auto. Qed.

Lemma hdr_split (k : nat) (img : list N) : firstn k (repeat 0 k ++ img) = repeat 0 k /\ skipn k (repeat 0 k ++ img) = img.
Proof.
  split.
  - rewrite <- (repeat_length 0 k) at 1. apply firstn_len_app.
  - rewrite <- (repeat_length 0 k) at 1. apply skipn_len_app.
Qed.
