(* HllDefs.v — executable model of hll/include (hll_sketch): no proofs here.
   Mirrors: HllUtil.hpp (coupon), CouponList-internal.hpp (8-slot list, linear scan),
   CouponHashSet-internal.hpp (open addressing, stride from the bits above lg, grow at 3/4,
   promotion at lg_arr = lg_k - 3), Hll8Array / Hll6Array (packed 6 bit, two-byte read-modify-write) /
   Hll4Array (nibbles, cur_min, num_at_cur_min, AuxHashMap exceptions, the update cases,
   shiftToBiggerCurMin), HllSketchImplFactory.hpp (promotion by coupon replay), the
   HllArray(const HllArray&) conversion constructors (copyAs), start_full_size, reset.
   kxq0/kxq1 are carried exactly as integers in units of 2^-31 and 2^-63 (every partial sum of the
   C++ doubles is a multiple of the unit below 2^53, so the doubles are exact; the harness checks this).
   hipAccum and the estimators are floating point and are not modelled.
   Every C++ path that throws (or dereferences a null aux map) is [None] in the model.
   C04 (the union) builds on: [impl], [hllarr], [sk_update], [sk_copy_as], [hll_regs], [hll_update]. *)
From Coq Require Import ZArith NArith List Bool.
From DS Require Import Word Murmur3 RunnerLib.
Import ListNotations.
Local Open Scope N_scope.

(* ---------- small array vocabulary (arrays are lists of N, index N) ---------- *)
Definition getN (l : list N) (i : N) : N := nth (N.to_nat i) l 0.
Definition setN (l : list N) (i v : N) : list N := upd_nth (N.to_nat i) (fun _ => v) l.
Definition zerosN (n : N) : list N := repeat 0 (N.to_nat n).
Definition seqN (n : N) : list N := map N.of_nat (seq 0 (N.to_nat n)).
Definition lenN (l : list N) : N := N.of_nat (length l).

Fixpoint ofold {A B : Type} (f : A -> B -> option A) (l : list B) (a : A) : option A :=
  match l with
  | [] => Some a
  | x :: t => match f a x with None => None | Some a' => ofold f t a' end
  end.

Fixpoint omap {A B : Type} (f : A -> option B) (l : list A) : option (list B) :=
  match l with
  | [] => Some []
  | x :: t => match f x, omap f t with
              | Some y, Some r => Some (y :: r)
              | _, _ => None
              end
  end.

Definition nonzero (l : list N) : list N := filter (fun e => negb (e =? 0)) l.

(* ---------- coupons (HllUtil.hpp) ---------- *)
Definition mask26 : N := 67108863.

(* coupon(hashState): address = low 26 bits of h1, value = min(clz(h2),62)+1 *)
Definition coupon_of_hash (h1 h2 : N) : N :=
  let lz := clz64 h2 in
  let v := (if 62 <? lz then 62 else lz) + 1 in
  N.lor (N.shiftl v 26) (N.land h1 mask26).

Definition c_val (c : N) : N := N.shiftr c 26.              (* getValue: coupon >> 26 (uint32 => < 64) *)
Definition c_low26 (c : N) : N := N.land c mask26.           (* getLow26 *)
Definition c_slot (lgk c : N) : N := N.land (c_low26 c) (N.ones lgk).
Definition pair_sv (slot v : N) : N := N.lor (N.shiftl v 26) (N.land slot mask26).   (* pair(slotNo,value) *)

Inductive tgt := T4 | T6 | T8.
Definition tgt_eqb (a b : tgt) : bool :=
  match a, b with T4, T4 | T6, T6 | T8, T8 => true | _, _ => false end.

(* ---------- open addressing shared by CouponHashSet::find and AuxHashMap::find ----------
   do { e = arr[probe]; if e == EMPTY return ~probe; if key matches return probe;
        probe = (probe + stride) & mask; } while (probe != loopIndex); throw
   The probe sequence is periodic with a period dividing the table size, so fuel = size is exact. *)
Inductive found := Found (i : N) | Empty (i : N) | Fail.

Fixpoint oa_find (fuel : nat) (arr : list N) (mask : N) (iskey : N -> bool) (stride probe start : N) : found :=
  match fuel with
  | O => Fail
  | S f =>
      let e := getN arr probe in
      if e =? 0 then Empty probe
      else if iskey e then Found probe
      else let p' := N.land (probe + stride) mask in
           if p' =? start then Fail else oa_find f arr mask iskey stride p' start
  end.

(* ---------- coupon list (LIST mode): 8 slots, linear scan ---------- *)
Record clist := { l_lgk : N; l_ty : tgt; l_ooo : bool; l_cnt : N; l_arr : list N }.

(* scan for an empty slot or a duplicate; None = "no empties and no duplicates" (throws) *)
Fixpoint list_scan (arr : list N) (c : N) : option (list N * bool) :=
  match arr with
  | [] => None
  | x :: t =>
      if x =? 0 then Some (c :: t, true)
      else if x =? c then Some (arr, false)
      else match list_scan t c with
           | Some (t', b) => Some (x :: t', b)
           | None => None
           end
  end.

Definition list_new (lgk : N) (ty : tgt) : clist :=
  {| l_lgk := lgk; l_ty := ty; l_ooo := false; l_cnt := 0; l_arr := zerosN 8 |}.

(* ---------- coupon hash set (SET mode) ---------- *)
Record cset := { s_lgk : N; s_ty : tgt; s_ooo : bool; s_lg : N; s_cnt : N; s_arr : list N }.

Definition set_stride (lg c : N) : N := N.lor (N.shiftr (N.land c mask26) lg) 1.

Definition set_find (arr : list N) (lg c : N) : found :=
  let start := N.land c (N.ones lg) in
  oa_find (length arr) arr (N.ones lg) (N.eqb c) (set_stride lg c) start start.

Definition set_new (lgk : N) (ty : tgt) : cset :=
  {| s_lgk := lgk; s_ty := ty; s_ooo := false; s_lg := 5; s_cnt := 0; s_arr := zerosN 32 |}.

(* growHashSet: re-insert the non-empty entries, in array order, into a table of twice the size *)
Definition set_regrow (lg' : N) (old : list N) : option (list N) :=
  ofold (fun na e => match set_find na lg' e with
                     | Empty i => Some (setN na i e)
                     | _ => None
                     end) (nonzero old) (zerosN (2 ^ lg')).

(* CouponHashSet::couponUpdate up to the promotion decision: (set', must-promote) *)
Definition set_insert (s : cset) (c : N) : option (cset * bool) :=
  match set_find (s_arr s) (s_lg s) c with
  | Found _ => Some (s, false)
  | Fail => None
  | Empty i =>
      let arr' := setN (s_arr s) i c in
      let cnt' := s_cnt s + 1 in
      if 3 * lenN arr' <? 4 * cnt' then
        if s_lg s =? s_lgk s - 3 then
          Some ({| s_lgk := s_lgk s; s_ty := s_ty s; s_ooo := s_ooo s; s_lg := s_lg s; s_cnt := cnt'; s_arr := arr' |}, true)
        else
          match set_regrow (s_lg s + 1) arr' with
          | Some na => Some ({| s_lgk := s_lgk s; s_ty := s_ty s; s_ooo := s_ooo s; s_lg := s_lg s + 1; s_cnt := cnt'; s_arr := na |}, false)
          | None => None
          end
      else Some ({| s_lgk := s_lgk s; s_ty := s_ty s; s_ooo := s_ooo s; s_lg := s_lg s; s_cnt := cnt'; s_arr := arr' |}, false)
  end.

(* ---------- AuxHashMap ---------- *)
Record auxmap := { a_lg : N; a_cnt : N; a_ent : list N }.

(* hll_constants::LG_AUX_ARR_INTS *)
Definition lg_aux_arr_ints (lgk : N) : N :=
  nth (N.to_nat lgk) [0; 2; 2; 2; 2; 2; 2; 3; 3; 3; 4; 4; 5; 5; 6; 7; 8; 9; 10; 11; 12; 13; 14; 15; 16; 17; 18] 0.

Definition aux_new (lgk : N) : auxmap :=
  let lg := lg_aux_arr_ints lgk in {| a_lg := lg; a_cnt := 0; a_ent := zerosN (2 ^ lg) |}.

Definition aux_stride (lg slot : N) : N := N.lor (N.shiftr slot lg) 1.

Definition aux_find_in (ent : list N) (lg lgk slot : N) : found :=
  let start := N.land slot (N.ones lg) in
  oa_find (length ent) ent (N.ones lg) (fun e => N.land e (N.ones lgk) =? slot) (aux_stride lg slot) start start.

Definition aux_find (a : auxmap) (lgk slot : N) : found := aux_find_in (a_ent a) (a_lg a) lgk slot.

Definition aux_must_find (a : auxmap) (lgk slot : N) : option N :=
  match aux_find a lgk slot with Found i => Some (c_val (getN (a_ent a) i)) | _ => None end.

Definition aux_must_replace (a : auxmap) (lgk slot v : N) : option auxmap :=
  match aux_find a lgk slot with
  | Found i => Some {| a_lg := a_lg a; a_cnt := a_cnt a; a_ent := setN (a_ent a) i (pair_sv slot v) |}
  | _ => None
  end.

(* growAuxSpace: an entry that finds no empty cell would be written at a negative index; None *)
Definition aux_regrow (lg' lgk : N) (old : list N) : option (list N) :=
  ofold (fun na e => match aux_find_in na lg' lgk (N.land e (N.ones lgk)) with
                     | Empty i => Some (setN na i e)
                     | _ => None
                     end) (nonzero old) (zerosN (2 ^ lg')).

Definition aux_must_add (a : auxmap) (lgk slot v : N) : option auxmap :=
  match aux_find a lgk slot with
  | Empty i =>
      let ent' := setN (a_ent a) i (pair_sv slot v) in
      let cnt' := a_cnt a + 1 in
      if 3 * 2 ^ a_lg a <? 4 * cnt' then
        match aux_regrow (a_lg a + 1) lgk ent' with
        | Some ne => Some {| a_lg := a_lg a + 1; a_cnt := cnt'; a_ent := ne |}
        | None => None
        end
      else Some {| a_lg := a_lg a; a_cnt := cnt'; a_ent := ent' |}
  | _ => None
  end.

(* ---------- HLL arrays ---------- *)
Record hllarr := {
  h_lgk : N; h_ty : tgt; h_full : bool; h_ooo : bool; h_rebuild : bool;
  h_bytes : list N; h_curmin : N; h_numat : N;
  h_kxq0 : Z;            (* kxq0_ * 2^31, exact *)
  h_kxq1 : Z;            (* kxq1_ * 2^63, exact *)
  h_aux : option auxmap
}.

Definition h_with_data (h : hllarr) (b : list N) (cm na : N) (k0 k1 : Z) (ax : option auxmap) : hllarr :=
  {| h_lgk := h_lgk h; h_ty := h_ty h; h_full := h_full h; h_ooo := h_ooo h; h_rebuild := h_rebuild h;
     h_bytes := b; h_curmin := cm; h_numat := na; h_kxq0 := k0; h_kxq1 := k1; h_aux := ax |}.
Definition h_set_bytes (h : hllarr) (b : list N) : hllarr :=
  h_with_data h b (h_curmin h) (h_numat h) (h_kxq0 h) (h_kxq1 h) (h_aux h).
Definition h_set_numat (h : hllarr) (na : N) : hllarr :=
  h_with_data h (h_bytes h) (h_curmin h) na (h_kxq0 h) (h_kxq1 h) (h_aux h).
Definition h_set_aux (h : hllarr) (ax : option auxmap) : hllarr :=
  h_with_data h (h_bytes h) (h_curmin h) (h_numat h) (h_kxq0 h) (h_kxq1 h) ax.
Definition h_set_flags (h : hllarr) (ooo rebuild : bool) : hllarr :=
  {| h_lgk := h_lgk h; h_ty := h_ty h; h_full := h_full h; h_ooo := ooo; h_rebuild := rebuild;
     h_bytes := h_bytes h; h_curmin := h_curmin h; h_numat := h_numat h;
     h_kxq0 := h_kxq0 h; h_kxq1 := h_kxq1 h; h_aux := h_aux h |}.

Definition arr_bytes (ty : tgt) (lgk : N) : N :=
  match ty with
  | T4 => 2 ^ (lgk - 1)
  | T6 => N.shiftr (2 ^ lgk * 3) 2 + 1
  | T8 => 2 ^ lgk
  end.

Definition hll_new (lgk : N) (ty : tgt) (full : bool) : hllarr :=
  {| h_lgk := lgk; h_ty := ty; h_full := full; h_ooo := false; h_rebuild := false;
     h_bytes := zerosN (arr_bytes ty lgk); h_curmin := 0; h_numat := 2 ^ lgk;
     h_kxq0 := Z.of_N (2 ^ lgk) * 2147483648; h_kxq1 := 0%Z; h_aux := None |}.

(* hipAndKxQIncrementalUpdate, the kxq part: subtract first, then add *)
Definition inv0 (v : N) : Z := Z.of_N (2 ^ (31 - v)).        (* 2^-v in units of 2^-31, v < 32 *)
Definition inv1 (v : N) : Z := Z.of_N (2 ^ (63 - v)).        (* 2^-v in units of 2^-63, 32 <= v < 64 *)
Definition kxq_upd (h : hllarr) (old new : N) : hllarr :=
  h_with_data h (h_bytes h) (h_curmin h) (h_numat h)
    (h_kxq0 h - (if (old <? 32)%N then inv0 old else 0) + (if (new <? 32)%N then inv0 new else 0))%Z
    (h_kxq1 h - (if (old <? 32)%N then 0 else inv1 old) + (if (new <? 32)%N then 0 else inv1 new))%Z
    (h_aux h).

(* Hll8Array::internalCouponUpdate *)
Definition hll8_update (h : hllarr) (c : N) : hllarr :=
  let s := c_slot (h_lgk h) c in
  let nv := c_val c in
  let cv := getN (h_bytes h) s in
  if cv <? nv then
    let h1 := kxq_upd (h_set_bytes h (setN (h_bytes h) s nv)) cv nv in
    h_set_numat h1 (if cv =? 0 then N.pred (h_numat h1) else h_numat h1)
  else h.

(* Hll6Array::getSlot / putSlot: two-byte window, little endian *)
Definition get6 (b : list N) (s : N) : N :=
  let sb := s * 6 in
  let sh := N.land sb 7 in
  let bi := N.shiftr sb 3 in
  let w := N.lor (N.shiftl (getN b (bi + 1)) 8) (getN b bi) in
  N.land (N.shiftr w sh) 63.

Definition put6 (b : list N) (s v : N) : list N :=
  let sb := s * 6 in
  let sh := N.land sb 7 in
  let bi := N.shiftr sb 3 in
  let vs := N.shiftl (N.land v 63) sh in
  let cur := N.lor (N.shiftl (getN b (bi + 1)) 8) (getN b bi) in
  let cm := N.ldiff cur (N.shiftl 63 sh) in
  let ins := N.lor cm vs in
  setN (setN b bi (N.land ins 255)) (bi + 1) (N.shiftr (N.land ins 65280) 8).

Definition hll6_update (h : hllarr) (c : N) : hllarr :=
  let s := c_slot (h_lgk h) c in
  let nv := c_val c in
  let cv := get6 (h_bytes h) s in
  if cv <? nv then
    let h1 := kxq_upd (h_set_bytes h (put6 (h_bytes h) s nv)) cv nv in
    h_set_numat h1 (if cv =? 0 then N.pred (h_numat h1) else h_numat h1)
  else h.

(* Hll4Array::getSlot / putSlot *)
Definition get4 (b : list N) (s : N) : N :=
  let byte := getN b (N.shiftr s 1) in
  if N.odd s then N.shiftr byte 4 else N.land byte 15.

Definition put4 (b : list N) (s v : N) : list N :=
  let bn := N.shiftr s 1 in
  let old := getN b bn in
  if N.odd s then setN b bn (N.lor (N.land old 15) (N.land (N.shiftl v 4) 240))
  else setN b bn (N.lor (N.land old 240) (N.land v 15)).

Definition aux_or_new (ax : option auxmap) (lgk : N) : auxmap :=
  match ax with Some a => a | None => aux_new lgk end.

(* shiftToBiggerCurMin *)
Definition shift_pass1 (has_aux : bool) (st : list N * N * N) (i : N) : option (list N * N * N) :=
  let '(b, nnew, naux) := st in
  let v := get4 b i in
  if v =? 0 then None                                    (* "Array slots cannot be 0 at this point." *)
  else if v <? 15 then
    let v' := v - 1 in Some (put4 b i v', (if v' =? 0 then nnew + 1 else nnew), naux)
  else if has_aux then Some (b, nnew, naux + 1) else None.

Definition shift_pass2 (lgk newcm : N) (st : list N * N * option auxmap) (e : N) : option (list N * N * option auxmap) :=
  let '(b, naux, nax) := st in
  let slot := N.land (c_low26 e) (N.ones lgk) in
  let oav := c_val e in
  if oav <? newcm then None
  else
    let nsv := oav - newcm in
    if negb (get4 b slot =? 15) then None
    else if nsv <? 15 then
      if negb (nsv =? 14) then None
      else Some (put4 b slot nsv, N.pred naux, nax)
    else
      match aux_must_add (aux_or_new nax lgk) lgk slot oav with
      | Some a' => Some (b, naux, Some a')
      | None => None
      end.

Definition shift4 (h : hllarr) : option hllarr :=
  let lgk := h_lgk h in
  let newcm := h_curmin h + 1 in
  let has_aux := match h_aux h with Some _ => true | None => false end in
  match ofold (shift_pass1 has_aux) (seqN (2 ^ lgk)) (h_bytes h, 0, 0) with
  | None => None
  | Some (b1, nnew, naux) =>
      let r2 := match h_aux h with
                | Some a => ofold (shift_pass2 lgk newcm) (nonzero (a_ent a)) (b1, naux, None)
                | None => if naux =? 0 then Some (b1, naux, None) else None
                end in
      match r2 with
      | None => None
      | Some (b2, naux2, nax) =>
          let ok := match nax with Some a' => a_cnt a' =? naux2 | None => true end in
          if ok then Some (h_with_data h b2 newcm nnew (h_kxq0 h) (h_kxq1 h) nax) else None
      end
  end.

Fixpoint shift_loop (fuel : nat) (h : hllarr) : option hllarr :=
  if h_numat h =? 0 then
    match fuel with
    | O => None
    | S f => match shift4 h with Some h' => shift_loop f h' | None => None end
    end
  else Some h.

(* Hll4Array::internalCouponUpdate + internalHll4Update *)
Definition hll4_update (h : hllarr) (c : N) : option hllarr :=
  let lgk := h_lgk h in
  let nv := c_val c in
  let cm := h_curmin h in
  if nv <=? cm then Some h
  else
    let s := c_slot lgk c in
    let raw := get4 (h_bytes h) s in
    let lb := w8 (raw + cm) in
    if lb <? nv then
      let oact := if raw <? 15 then Some lb
                  else match h_aux h with Some a => aux_must_find a lgk s | None => None end in
      match oact with
      | None => None
      | Some act =>
          if act <? nv then
            let h1 := kxq_upd h act nv in
            let snv := w8 (nv - cm) in
            let oh2 :=
              if raw =? 15 then
                if 15 <=? snv then
                  match h_aux h1 with
                  | Some a => match aux_must_replace a lgk s nv with
                              | Some a' => Some (h_set_aux h1 (Some a'))
                              | None => None
                              end
                  | None => None
                  end
                else Some h1                                             (* "case 2": nothing is written *)
              else if 15 <=? snv then
                let h2 := h_set_bytes h1 (put4 (h_bytes h1) s 15) in
                match aux_must_add (aux_or_new (h_aux h2) lgk) lgk s nv with
                | Some a' => Some (h_set_aux h2 (Some a'))
                | None => None
                end
              else Some (h_set_bytes h1 (put4 (h_bytes h1) s snv)) in
            match oh2 with
            | None => None
            | Some h2 =>
                if act =? cm then shift_loop 70 (h_set_numat h2 (N.pred (h_numat h2)))
                else Some h2
            end
          else Some h
      end
    else Some h.

Definition hll_update (h : hllarr) (c : N) : option hllarr :=
  match h_ty h with
  | T8 => Some (hll8_update h c)
  | T6 => Some (hll6_update h c)
  | T4 => hll4_update h c
  end.

(* HllArray::const_iterator::get_value (one slot) *)
Definition hll_get (h : hllarr) (s : N) : option N :=
  match h_ty h with
  | T8 => Some (getN (h_bytes h) s)
  | T6 => Some (get6 (h_bytes h) s)
  | T4 => let r := get4 (h_bytes h) s in
          if r =? 15 then match h_aux h with Some a => aux_must_find a (h_lgk h) s | None => None end
          else Some (w8 (r + h_curmin h))
  end.

(* begin(all = true) .. end(): the values of slots 0 .. k-1. The model decodes the byte array
   sequentially (linear time); HllProofs.hll_regs_pointwise shows it is [hll_get] slot by slot. *)
Definition take_pad (k : nat) (l : list N) : list N := firstn k (l ++ repeat 0 k).

Fixpoint nibbles (bytes : list N) : list N :=
  match bytes with
  | [] => []
  | b :: t => N.land b 15 :: N.shiftr b 4 :: nibbles t
  end.

Fixpoint sixes (bytes : list N) : list N :=
  match bytes with
  | b0 :: ((b1 :: b2 :: t) as r) =>
      N.land b0 63
      :: N.lor (N.shiftr b0 6) (N.shiftl (N.land b1 15) 2)
      :: N.lor (N.shiftr b1 4) (N.shiftl (N.land b2 3) 4)
      :: N.shiftr b2 2 :: sixes t
  | _ => []
  end.

Fixpoint regs4_from (cm lgk : N) (ax : option auxmap) (i : N) (nibs : list N) : option (list N) :=
  match nibs with
  | [] => Some []
  | r :: t =>
      let ov := if r =? 15 then match ax with Some a => aux_must_find a lgk i | None => None end
                else Some (w8 (r + cm)) in
      match ov, regs4_from cm lgk ax (i + 1) t with
      | Some v, Some rest => Some (v :: rest)
      | _, _ => None
      end
  end.

Definition hll_regs (h : hllarr) : option (list N) :=
  let k := N.to_nat (2 ^ h_lgk h) in
  match h_ty h with
  | T8 => Some (take_pad k (h_bytes h))
  | T6 => Some (take_pad k (sixes (h_bytes h)))
  | T4 => regs4_from (h_curmin h) (h_lgk h) (h_aux h) 0 (take_pad k (nibbles (h_bytes h)))
  end.

(* begin(all = false) .. end(): pair(slot, value) of the non-empty slots, in slot order *)
Fixpoint coupons_from (i : N) (vals : list N) : list N :=
  match vals with
  | [] => []
  | v :: t => if v =? 0 then coupons_from (i + 1) t else pair_sv i v :: coupons_from (i + 1) t
  end.

Definition hll_coupons (h : hllarr) : option (list N) :=
  match hll_regs h with Some vs => Some (coupons_from 0 vs) | None => None end.

(* Hll{4,6,8}Array(const HllArray& other): replay the other array's coupons into a fresh array *)
Definition hll_convert (ty : tgt) (h : hllarr) : option hllarr :=
  match hll_coupons h with
  | None => None
  | Some cs =>
      let h0 := h_set_flags (hll_new (h_lgk h) ty (h_full h)) (h_ooo h) false in
      match ofold hll_update cs h0 with
      | None => None
      | Some h1 =>
          Some (match ty with
                | T4 => h1
                | _ => h_set_numat h1 (2 ^ h_lgk h - lenN cs)
                end)
      end
  end.

(* HllArray::copyAs *)
Definition hll_copy_as (ty : tgt) (h : hllarr) : option hllarr :=
  if tgt_eqb ty (h_ty h) && negb (h_rebuild h) then Some h else hll_convert ty h.

(* ---------- the sketch: mode transitions ---------- *)
Inductive impl := IList (l : clist) | ISet (s : cset) | IHll (h : hllarr).

(* HllSketchImplFactory::promoteListOrSetToHll *)
Definition promote_to_hll (lgk : N) (ty : tgt) (coupons : list N) : option impl :=
  match ofold hll_update coupons (hll_new lgk ty false) with
  | Some h => Some (IHll (h_set_flags h false (h_rebuild h)))
  | None => None
  end.

(* HllSketchImplFactory::promoteListToSet: the value returned by couponUpdate is ignored *)
Definition promote_to_set (lgk : N) (ty : tgt) (coupons : list N) : option impl :=
  match ofold (fun s c => match set_insert s c with Some (s', _) => Some s' | None => None end)
              coupons (set_new lgk ty) with
  | Some s => Some (ISet s)
  | None => None
  end.

Definition list_update (l : clist) (c : N) : option impl :=
  match list_scan (l_arr l) c with
  | None => None
  | Some (_, false) => Some (IList l)
  | Some (arr', true) =>
      let cnt' := l_cnt l + 1 in
      if cnt' =? lenN arr' then
        if l_lgk l <? 8 then promote_to_hll (l_lgk l) (l_ty l) (nonzero arr')
        else promote_to_set (l_lgk l) (l_ty l) (nonzero arr')
      else Some (IList {| l_lgk := l_lgk l; l_ty := l_ty l; l_ooo := l_ooo l; l_cnt := cnt'; l_arr := arr' |})
  end.

Definition set_update (s : cset) (c : N) : option impl :=
  match set_insert s c with
  | None => None
  | Some (s', false) => Some (ISet s')
  | Some (s', true) => promote_to_hll (s_lgk s') (s_ty s') (nonzero (s_arr s'))
  end.

(* hll_sketch::coupon_update *)
Definition sk_update (i : impl) (c : N) : option impl :=
  if c =? 0 then Some i
  else match i with
       | IList l => list_update l c
       | ISet s => set_update s c
       | IHll h => match hll_update h c with Some h' => Some (IHll h') | None => None end
       end.

Definition sk_new (lgk : N) (ty : tgt) (full : bool) : impl :=
  if full then IHll (hll_new lgk ty true) else IList (list_new lgk ty).

(* hll_sketch(const hll_sketch&, target_hll_type) *)
Definition sk_copy_as (ty : tgt) (i : impl) : option impl :=
  match i with
  | IList l => Some (IList {| l_lgk := l_lgk l; l_ty := ty; l_ooo := l_ooo l; l_cnt := l_cnt l; l_arr := l_arr l |})
  | ISet s => Some (ISet {| s_lgk := s_lgk s; s_ty := ty; s_ooo := s_ooo s; s_lg := s_lg s; s_cnt := s_cnt s; s_arr := s_arr s |})
  | IHll h => match hll_copy_as ty h with Some h' => Some (IHll h') | None => None end
  end.

Definition sk_lgk (i : impl) : N :=
  match i with IList l => l_lgk l | ISet s => s_lgk s | IHll h => h_lgk h end.
Definition sk_ty (i : impl) : tgt :=
  match i with IList l => l_ty l | ISet s => s_ty s | IHll h => h_ty h end.
Definition sk_full (i : impl) : bool :=
  match i with IHll h => h_full h | _ => false end.
Definition sk_ooo (i : impl) : bool :=
  match i with IList l => l_ooo l | ISet s => s_ooo s | IHll h => h_ooo h end.

(* hll_sketch::reset *)
Definition sk_reset (i : impl) : impl := sk_new (sk_lgk i) (sk_ty i) (sk_full i).

(* isEmpty *)
Definition sk_is_empty (i : impl) : bool :=
  match i with
  | IList l => l_cnt l =? 0
  | ISet s => s_cnt s =? 0
  | IHll h => (h_curmin h =? 0) && (h_numat h =? 2 ^ h_lgk h)
  end.

Definition sk_updates (i : impl) (cs : list N) : option impl := ofold sk_update cs i.

(* ---------- L0: the mathematical content ---------- *)
(* per-slot maximum of the values of the coupons folded to 2^lgk slots *)
Definition slot_max (lgk : N) (C : list N) (s : N) : N :=
  fold_right N.max 0 (map c_val (filter (fun c => c_slot lgk c =? s) C)).
Definition spec_regs (lgk : N) (C : list N) : list N := map (slot_max lgk C) (seqN (2 ^ lgk)).

(* sorted list of the distinct elements *)
Fixpoint ins_sorted (c : N) (l : list N) : list N :=
  match l with
  | [] => [c]
  | x :: t => match c ?= x with
              | Lt => c :: l
              | Eq => l
              | Gt => x :: ins_sorted c t
              end
  end.
Definition sort_distinct (l : list N) : list N := fold_right ins_sorted [] l.

(* logical content of a sketch: distinct coupons (list/set) or the registers (HLL) *)
Inductive content := CCoupons (cs : list N) | CRegs (rs : list N) | CBroken.
Definition sk_content (i : impl) : content :=
  match i with
  | IList l => CCoupons (sort_distinct (nonzero (l_arr l)))
  | ISet s => CCoupons (sort_distinct (nonzero (s_arr s)))
  | IHll h => match hll_regs h with Some rs => CRegs rs | None => CBroken end
  end.

(* ---------- items to coupons (HllSketch-internal.hpp update overloads) ---------- *)
Definition default_seed : N := 9001.

Definition sext (bits : N) (x : N) : N :=          (* sign-extend the low [bits] of x to 64 bits *)
  let m := N.land x (N.ones bits) in
  if N.testbit m (bits - 1) then N.lor m (N.shiftl (N.ones (64 - bits)) bits) else m.

Definition canon_double (d : N) : N :=             (* -0.0 -> 0.0; NaN -> 0x7ff8000000000000 *)
  let mag := N.land d 9223372036854775807 in
  if mag =? 0 then 0
  else if 9218868437227405312 <? mag then 9221120237041090560
  else d.

Definition float_to_double_bits (f : N) : N :=    (* exact widening of an IEEE single *)
  let s := N.shiftl (N.land (N.shiftr f 31) 1) 63 in
  let e := N.land (N.shiftr f 23) 255 in
  let m := N.land f 8388607 in
  if e =? 255 then N.lor s (N.lor 9218868437227405312 (N.shiftl m 29))
  else if e =? 0 then
    if m =? 0 then s
    else let b := N.log2 m in
         N.lor s (N.lor (N.shiftl (b + 874) 52) (N.shiftl (m - 2 ^ b) (52 - b)))
  else N.lor s (N.lor (N.shiftl (e + 896) 52) (N.shiftl m 29)).

(* kind: 0 uint64, 1 int64, 2 string (empty ignored), 3 double bits, 4 float bits, 5 int32, 6 uint32,
         7 int16, 8 uint16, 9 int8, 10 uint8, 11 (void*,len) with non-null pointer.
   uint32/16/8 are cast to the signed type of the same width first, so they sign-extend too. *)
Definition item_bytes (kind : Z) (args : list Z) : option (list N) :=
  let a0 := match args with v :: _ => z_to_u64 v | [] => 0 end in
  match kind with
  | 0%Z | 1%Z => Some (N_to_le_bytes 8 a0)
  | 2%Z => match args with [] => None | _ => Some (map (fun z => w8 (zN z)) args) end
  | 3%Z => Some (N_to_le_bytes 8 (canon_double a0))
  | 4%Z => Some (N_to_le_bytes 8 (canon_double (float_to_double_bits (w32 a0))))
  | 5%Z | 6%Z => Some (N_to_le_bytes 8 (sext 32 a0))
  | 7%Z | 8%Z => Some (N_to_le_bytes 8 (sext 16 a0))
  | 9%Z | 10%Z => Some (N_to_le_bytes 8 (sext 8 a0))
  | 11%Z => Some (map (fun z => w8 (zN z)) args)
  | _ => None
  end.

Definition coupon_of_bytes (bs : list N) : N :=
  let '(h1, h2) := murmur3_x64_128 bs default_seed in coupon_of_hash h1 h2.

(* ---------- ghost (specification) state kept beside every register ---------- *)
(* g_regs = spec_regs of the log, g_dist = sorted distinct log while it has at most g_cap elements
   (both proved in HllProofs.v); maintained incrementally so that queries are cheap *)
Record ghost := { g_lgk : N; g_n : N; g_seq : N; g_regs : list N; g_dist : option (list N); g_conv : bool }.

(* rolling fingerprint of the sequence of coupons fed (only used by the oracle to recognise registers
   that were fed the same sequence) *)
Definition seq_fp (h c : N) : N := (h * 1000003 + c + 1) mod 2305843009213693951.

Definition reg_max_upd (lgk : N) (regs : list N) (c : N) : list N :=
  let s := c_slot lgk c in
  let v := c_val c in
  if getN regs s <? v then setN regs s v else regs.

Definition g_cap (lgk : N) : N := 2 ^ lgk.

Definition ghost_new (lgk : N) : ghost :=
  {| g_lgk := lgk; g_n := 0; g_seq := 0; g_regs := zerosN (2 ^ lgk); g_dist := Some []; g_conv := false |}.

Definition ghost_upd (g : ghost) (c : N) : ghost :=
  if c =? 0 then g else
  {| g_lgk := g_lgk g; g_n := g_n g + 1; g_seq := seq_fp (g_seq g) c;
     g_regs := reg_max_upd (g_lgk g) (g_regs g) c;
     g_dist := match g_dist g with
               | Some d => let d' := ins_sorted c d in
                           if g_cap (g_lgk g) <? lenN d' then None else Some d'
               | None => None
               end;
     g_conv := g_conv g |}.

Definition ghost_conv (g : ghost) : ghost :=
  {| g_lgk := g_lgk g; g_n := g_n g; g_seq := g_seq g; g_regs := g_regs g; g_dist := g_dist g; g_conv := true |}.

(* ---------- line protocol ---------- *)
Record reg := { r_impl : impl; r_g : ghost }.

Definition tgt_of_Z (z : Z) : option tgt :=
  match z with 0%Z => Some T4 | 1%Z => Some T6 | 2%Z => Some T8 | _ => None end.
Definition Z_of_tgt (t : tgt) : Z := match t with T4 => 0%Z | T6 => 1%Z | T8 => 2%Z end.

Definition feed (r : reg) (cs : list N) : option reg :=
  match sk_updates (r_impl r) cs with
  | Some i' => Some {| r_impl := i'; r_g := fold_left ghost_upd cs (r_g r) |}
  | None => None
  end.

Fixpoint batch_items (n : nat) (start stride : N) : list N :=
  match n with
  | O => []
  | S n' => coupon_of_bytes (N_to_le_bytes 8 (w64 start)) :: batch_items n' (w64 (start + stride)) stride
  end.

Definition aux_pairs (h : hllarr) : list N :=
  match h_aux h with Some a => sort_distinct (nonzero (a_ent a)) | None => [] end.

Definition query_R (i : impl) : line :=
  let head := [Nz (sk_lgk i); Z_of_tgt (sk_ty i);
               match i with IList _ => 0%Z | ISet _ => 1%Z | IHll _ => 2%Z end;
               bz (sk_is_empty i); bz (sk_ooo i)] in
  match i with
  | IList l => head ++ Nz (l_cnt l) :: map Nz (sort_distinct (nonzero (l_arr l)))
  | ISet s => head ++ Nz (s_cnt s) :: map Nz (sort_distinct (nonzero (s_arr s)))
  | IHll h =>
      match hll_regs h with
      | Some rs =>
          let ap := aux_pairs h in
          head ++ [Nz (h_curmin h); Nz (h_numat h); h_kxq0 h; h_kxq1 h; bz (h_full h); Nz (lenN ap)]
               ++ map Nz ap ++ map Nz rs
      | None => [(-1)%Z]
      end
  end.

Definition query_S (g : ghost) : line :=
  [Nz (g_n g); bz (g_conv g); Nz (g_seq g); match g_dist g with Some d => Nz (lenN d) | None => (-1)%Z end]
  ++ map Nz (g_regs g)
  ++ match g_dist g with Some d => map Nz d | None => [] end.

Local Open Scope Z_scope.

(* feed the same coupons to several registers; None if a register is missing or an update throws *)
Fixpoint feed_all (s : list (Z * reg)) (rs : list Z) (cs : list N) : option (list (Z * reg)) :=
  match rs with
  | [] => Some s
  | r :: t => match reg_get s r with
              | Some x => match feed x cs with
                          | Some x' => feed_all (reg_set s r x') t cs
                          | None => None
                          end
              | None => None
              end
  end.

Definition step (s : list (Z * reg)) (o e : line) : list (Z * reg) * outline :=
  match o with
  | 1 :: r :: lgk :: ty :: full :: _ =>                  (* new sketch *)
      match tgt_of_Z ty with
      | Some t =>
          if (4 <=? lgk) && (lgk <=? 21) then
            (reg_set s r {| r_impl := sk_new (zN lgk) t (negb (full =? 0)); r_g := ghost_new (zN lgk) |}, (ok, []))
          else (s, (refused, []))
      | None => (s, ([-2], []))
      end
  | 2 :: m :: rest =>                                    (* update m registers with one item: 2 m r1..rm kind args *)
      match skipn (zn m) rest with
      | kind :: args =>
          match item_bytes kind args with
          | None => (s, (ok, []))                        (* empty string: ignored *)
          | Some bs =>
              match feed_all s (firstn (zn m) rest) [coupon_of_bytes bs] with
              | Some s' => (s', (ok, []))
              | None => (s, (refused, []))
              end
          end
      | [] => (s, ([-2], []))
      end
  | 3 :: m :: rest =>                                    (* raw coupons through coupon_update: 3 m r1..rm c* *)
      match feed_all s (firstn (zn m) rest) (map (fun z => w32 (zN z)) (skipn (zn m) rest)) with
      | Some s' => (s', (ok, []))
      | None => (s, (refused, []))
      end
  | 4 :: m :: rest =>                                    (* update((int64) start + i*stride), i < count: 4 m r1..rm start count stride *)
      match skipn (zn m) rest with
      | start :: count :: stride :: _ =>
          match feed_all s (firstn (zn m) rest) (batch_items (zn count) (z_to_u64 start) (z_to_u64 stride)) with
          | Some s' => (s', (ok, []))
          | None => (s, (refused, []))
          end
      | _ => (s, ([-2], []))
      end
  | 6 :: r :: _ =>                                       (* query *)
      match reg_get s r with
      | Some x => (s, (query_R (r_impl x), query_S (r_g x)))
      | None => (s, (refused, []))
      end
  | 7 :: r :: r2 :: ty :: _ =>                           (* r2 := hll_sketch(r, ty) *)
      match reg_get s r, tgt_of_Z ty with
      | Some x, Some t =>
          match sk_copy_as t (r_impl x) with
          | Some i' => (reg_set s r2 {| r_impl := i'; r_g := ghost_conv (r_g x) |}, (ok, []))
          | None => (s, (refused, []))
          end
      | _, _ => (s, (refused, []))
      end
  | 8 :: r :: r2 :: _ =>                                 (* r2 := copy of r *)
      match reg_get s r with
      | Some x => (reg_set s r2 x, (ok, []))
      | None => (s, (refused, []))
      end
  | 9 :: r :: _ =>                                       (* reset *)
      match reg_get s r with
      | Some x => (reg_set s r {| r_impl := sk_reset (r_impl x); r_g := ghost_new (sk_lgk (r_impl x)) |}, (ok, []))
      | None => (s, (refused, []))
      end
  | 11 :: h1 :: h2 :: _ =>                               (* HllUtil::coupon of a raw hash state (h1, h2) *)
      (s, ([Nz (coupon_of_hash (z_to_u64 h1) (z_to_u64 h2))], []))
  | _ => (s, ([-2], []))
  end.

Definition run (ops : list opline) : list outline := run_case step [] ops.
