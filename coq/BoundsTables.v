(* BoundsTables.v — side conditions of the TRANSLATED tables (gen/BoundTablesGen.v, regenerated from the headers by
   translators/gen_boundtables.py on every run) and of the bit-exact relative-error functions built on them.
   Every statement is a finite check decided by vm_compute with the kernel's binary64 comparison; a changed table
   entry, a changed table length or an index formula that leaves the table breaks an obligation here. *)
From Coq Require Import ZArith NArith List Bool Floats Lia.
From DS Require Import RunnerLib BoundsDefs.
From DS.gen Require Import BoundTablesGen.
Import ListNotations.
Local Open Scope Z_scope.

Definition fpos (x : float) : bool := PrimFloat.ltb PrimFloat.zero x.
Definition fneg_unit (x : float) : bool := PrimFloat.ltb (PrimFloat.opp PrimFloat.one) x && PrimFloat.ltb x PrimFloat.zero.
Definition flt (a b : float) : bool := PrimFloat.ltb a b.

(* rows of three (one entry per number of std devs) *)
Fixpoint rows3 (l : list float) : list (float * float * float) :=
  match l with a :: b :: c :: r => (a, b, c) :: rows3 r | _ => [] end.
Definition row_incr (r : float * float * float) : bool := let '(a, b, c) := r in flt a b && flt b c.
Definition row_decr (r : float * float * float) : bool := let '(a, b, c) := r in flt c b && flt b a.
Fixpoint sorted_strict (l : list float) : bool :=
  match l with a :: (b :: _) as r => flt a b && sorted_strict r | _ => true end.
Definition zrange (lo hi : Z) : list Z := map (fun i => lo + Z.of_nat i) (seq 0 (Z.to_nat (hi - lo + 1))).

(* ---- lengths ---- *)
Lemma table_lengths :
  (length delta_of_num_std_devs, length lb_equiv_table, length ub_equiv_table) = (4, 363, 363)%nat /\
  (length hll_HIP_LB, length hll_HIP_UB, length hll_NON_HIP_LB, length hll_NON_HIP_UB) = (27, 27, 27, 27)%nat /\
  (length cpc_ICON_LOW_SIDE_DATA, length cpc_ICON_HIGH_SIDE_DATA, length cpc_HIP_LOW_SIDE_DATA, length cpc_HIP_HIGH_SIDE_DATA)
     = (33, 33, 33, 33)%nat /\
  Z.of_nat (length icon_coefficients) = (icon_POLYNOMIAL_DEGREE + 1) * (icon_MAX_LOG_K - icon_MIN_LOG_K + 1) /\
  (Z.of_nat (length coupon_xArr), Z.of_nat (length coupon_yArr)) = (coupon_numEntries, coupon_numEntries).
Proof. vm_compute. repeat split; reflexivity. Qed.

(* ---- index ranges: every lookup the code can make stays inside its table ---- *)
Lemma equiv_index_in_range n sd : 0 <= n <= 120 -> 1 <= sd <= 3 ->
  0 <= equiv_index n sd < Z.of_nat (length lb_equiv_table) /\ 0 <= equiv_index n sd < Z.of_nat (length ub_equiv_table).
Proof.
  intros Hn Hs. assert (E : length lb_equiv_table = 363%nat /\ length ub_equiv_table = 363%nat) by (vm_compute; split; reflexivity).
  destruct E as [E2 E3]. rewrite E2, E3. unfold equiv_index. lia.
Qed.
Lemma hll_index_in_range lgk sd : 4 <= lgk <= 12 -> 1 <= sd <= 3 -> 0 <= (lgk - 4) * 3 + (sd - 1) < 27.
Proof. lia. Qed.
Lemma cpc_index_in_range lgk kappa : 4 <= lgk <= 14 -> 1 <= kappa <= 3 -> 0 <= 3 * (lgk - 4) + (kappa - 1) < 33.
Proof. lia. Qed.
Lemma icon_index_in_range lgk : icon_MIN_LOG_K <= lgk <= icon_MAX_LOG_K ->
  0 <= icon_ncoef * (lgk - icon_MIN_LOG_K) /\ icon_ncoef * (lgk - icon_MIN_LOG_K) + icon_ncoef <= Z.of_nat (length icon_coefficients).
Proof.
  destruct table_lengths as (_ & _ & _ & E & _). rewrite E. unfold icon_ncoef.
  change icon_MIN_LOG_K with 4. change icon_MAX_LOG_K with 26. change icon_POLYNOMIAL_DEGREE with 19. lia.
Qed.

(* ---- binomial_bounds tables ---- *)
Lemma binomial_tables_ok :
  forallb fpos lb_equiv_table = true /\ forallb fpos ub_equiv_table = true /\
  forallb row_incr (rows3 lb_equiv_table) = true /\ forallb row_incr (rows3 ub_equiv_table) = true /\
  forallb fpos delta_of_num_std_devs = true /\
  sorted_strict (rev delta_of_num_std_devs) = true /\ PrimFloat.leb (fnth delta_of_num_std_devs 0) c_half = true.
Proof. vm_compute. repeat split; reflexivity. Qed.

(* ---- RelativeErrorTables: lower-side factors > 0, upper-side factors in (-1, 0), |factor| grows with the std devs ---- *)
Lemma hll_tables_ok :
  forallb fpos hll_HIP_LB = true /\ forallb fpos hll_NON_HIP_LB = true /\
  forallb fneg_unit hll_HIP_UB = true /\ forallb fneg_unit hll_NON_HIP_UB = true /\
  forallb row_incr (rows3 hll_HIP_LB) = true /\ forallb row_incr (rows3 hll_NON_HIP_LB) = true /\
  forallb row_decr (rows3 hll_HIP_UB) = true /\ forallb row_decr (rows3 hll_NON_HIP_UB) = true.
Proof. vm_compute. repeat split; reflexivity. Qed.

(* ---- HllUtil::getRelErr as modelled (table for lg_k <= 12, formula above), every lg_k 4..21, HIP and non-HIP ---- *)
Definition hll_rel_err_row_ok (ooo : bool) (lgk : Z) : bool :=
  let lo := (hll_rel_err false ooo lgk 1, hll_rel_err false ooo lgk 2, hll_rel_err false ooo lgk 3) in
  let hi := (hll_rel_err true ooo lgk 1, hll_rel_err true ooo lgk 2, hll_rel_err true ooo lgk 3) in
  let '(a, b, c) := lo in let '(d, e, f) := hi in
  fpos a && row_incr lo && fneg_unit d && fneg_unit e && fneg_unit f && row_decr hi.
Lemma hll_rel_err_ok : forall ooo lgk, hll_MIN_LOG_K <= lgk <= hll_MAX_LOG_K -> hll_rel_err_row_ok ooo lgk = true.
Proof.
  assert (H : forallb (fun lgk => hll_rel_err_row_ok false lgk && hll_rel_err_row_ok true lgk) (zrange 4 21) = true)
    by (vm_compute; reflexivity).
  intros ooo lgk Hr. change hll_MIN_LOG_K with 4 in Hr. change hll_MAX_LOG_K with 21 in Hr.
  rewrite forallb_forall in H. specialize (H lgk).
  assert (Hin : In lgk (zrange 4 21)).
  { unfold zrange. apply in_map_iff. exists (Z.to_nat (lgk - 4)). split; [lia|]. apply in_seq. lia. }
  apply H in Hin. apply andb_true_iff in Hin. destruct ooo; tauto.
Qed.
(* the coupon-mode factor: 0 < sd * COUPON_RSE < 1 for sd = 1..3 *)
Lemma coupon_rse_ok : fpos coupon_rse = true /\ flt (PrimFloat.mul (fofZ 3) coupon_rse) PrimFloat.one = true.
Proof. vm_compute. split; reflexivity. Qed.
Lemma coupon_tables_ok :
  sorted_strict coupon_xArr = true /\ sorted_strict coupon_yArr = true /\
  forallb (fun p => PrimFloat.leb (fst p) (snd p)) (combine coupon_xArr coupon_yArr) = true.
Proof. vm_compute. repeat split; reflexivity. Qed.

(* ---- CompositeInterpolationXTable: one row of numXArrValues strictly increasing x values per lg_k 4..21, positive strides ---- *)
Lemma composite_tables_ok :
  Z.of_nat (length composite_xArrs_bits) = hll_MAX_LOG_K - hll_MIN_LOG_K + 1 /\
  length composite_yStrides = length composite_xArrs_bits /\
  forallb (fun r => (Z.of_nat (length r) =? composite_numXArrValues) && sorted_strict (map FloatBits.bits_to_float r)
                    && fpos (FloatBits.bits_to_float (znth r 0))) composite_xArrs_bits = true /\
  forallb (fun v => 0 <? v) composite_yStrides = true /\ 4 <= composite_numXArrValues.
Proof. vm_compute. repeat split; try reflexivity; discriminate. Qed.

(* ---- cpc_confidence: eps as modelled, every lg_k 4..26, HIP and ICON: 0 < eps_lb, 0 < eps_ub < 1, growing with kappa ---- *)
Definition cpc_eps_row_ok (merged : bool) (lgk : Z) : bool :=
  let lo := (cpc_eps_lb merged lgk 1, cpc_eps_lb merged lgk 2, cpc_eps_lb merged lgk 3) in
  let hi := (cpc_eps_ub merged lgk 1, cpc_eps_ub merged lgk 2, cpc_eps_ub merged lgk 3) in
  let '(a, _, _) := lo in let '(d, _, f) := hi in
  fpos a && row_incr lo && fpos d && row_incr hi && flt f PrimFloat.one.
Lemma cpc_eps_ok : forall merged lgk, 4 <= lgk <= 26 -> cpc_eps_row_ok merged lgk = true.
Proof.
  assert (H : forallb (fun lgk => cpc_eps_row_ok false lgk && cpc_eps_row_ok true lgk) (zrange 4 26) = true)
    by (vm_compute; reflexivity).
  intros merged lgk Hr. rewrite forallb_forall in H. specialize (H lgk).
  assert (Hin : In lgk (zrange 4 26)).
  { unfold zrange. apply in_map_iff. exists (Z.to_nat (lgk - 4)). split; [lia|]. apply in_seq. lia. }
  apply H in Hin. apply andb_true_iff in Hin. destruct merged; tauto.
Qed.
Lemma cpc_tables_ok :
  forallb (fun v => (0 <? v) && (v <? 10000)) (cpc_ICON_LOW_SIDE_DATA ++ cpc_ICON_HIGH_SIDE_DATA ++ cpc_HIP_LOW_SIDE_DATA ++ cpc_HIP_HIGH_SIDE_DATA) = true.
Proof. vm_compute. reflexivity. Qed.

(* ---- branch structure of the binomial approximations: the table branch is only entered with an index inside the table,
        the exact-tail branch (libm) only for 2 <= n <= 120 (1 <= n for the upper bound) ---- *)
Lemma approx_lb_branches n theta sd pw : 0 <= n ->
  match approx_lb n theta sd pw with
  | Exact 6 _ => 2 <= n <= 120
  | Exact 7 _ => 2 <= n <= 120
  | Libm 7 => 2 <= n <= 120
  | Libm 3 => n = 1
  | Exact 2 _ => n = 0
  | Exact 4 _ => 120 < n
  | _ => True
  end.
Proof.
  intros Hn. unfold approx_lb.
  destruct (PrimFloat.eqb theta 1); [exact I|].
  destruct (Z.eqb_spec n 0); [assumption|]. destruct (Z.eqb_spec n 1); [assumption|].
  destruct (Z.ltb_spec 120 n); [assumption|].
  destruct (PrimFloat.ltb _ theta); [exact I|]. destruct (PrimFloat.ltb theta _); [lia|].
  match goal with |- context [match ?x with Some _ => _ | None => _ end] => destruct x end; lia.
Qed.
Lemma approx_ub_branches n theta sd pw : 0 <= n ->
  match approx_ub n theta sd pw with
  | Exact 6 _ => 1 <= n <= 120
  | Exact 7 _ => 1 <= n <= 120
  | Libm 7 => 1 <= n <= 120
  | Libm 2 => n = 0
  | Exact 4 _ => 120 < n
  | _ => True
  end.
Proof.
  intros Hn. unfold approx_ub.
  destruct (PrimFloat.eqb theta 1); [exact I|].
  destruct (Z.eqb_spec n 0); [assumption|].
  destruct (Z.ltb_spec 120 n); [assumption|].
  destruct (PrimFloat.ltb _ theta); [exact I|]. destruct (PrimFloat.ltb theta _); [lia|].
  match goal with |- context [match ?x with Some _ => _ | None => _ end] => destruct x end; lia.
Qed.

(* ---- the published tables are pinned: a polynomial digest over the binary64 bit patterns (integer entries for the
        cpc tables). Digits that round to the same double do not change it; any changed entry does. ---- *)
Definition digest_step (acc v : Z) : Z := (acc * 1000003 + v) mod 2305843009213693951.
Definition fdigest (l : list float) : Z := fold_left (fun acc x => digest_step acc (FloatBits.float_to_bits x)) l 0.
Definition zdigest (l : list Z) : Z := fold_left digest_step l 0.
Definition all_digests : list Z :=
  [fdigest delta_of_num_std_devs; fdigest lb_equiv_table; fdigest ub_equiv_table;
   fdigest hll_HIP_LB; fdigest hll_HIP_UB; fdigest hll_NON_HIP_LB; fdigest hll_NON_HIP_UB;
   fdigest coupon_xArr; fdigest coupon_yArr; fdigest icon_coefficients;
   zdigest cpc_ICON_LOW_SIDE_DATA; zdigest cpc_ICON_HIGH_SIDE_DATA; zdigest cpc_HIP_LOW_SIDE_DATA; zdigest cpc_HIP_HIGH_SIDE_DATA;
   fdigest [cpc_ICON_ERROR_CONSTANT; cpc_HIP_ERROR_CONSTANT; hll_HIP_RSE_FACTOR; hll_NON_HIP_RSE_FACTOR; hll_COUPON_RSE_FACTOR];
   zdigest (concat composite_xArrs_bits); zdigest composite_yStrides].
Lemma tables_pinned : all_digests =
  [1631660916400092824; 1336942135380431933; 1334016574715188835; 367845026185637098; 1621689400017352834;
   2238524135473666140; 534981407937136847; 1630260656333221549; 260266529527383061; 193657861660872282;
   1607972753685019361; 1883696197063475363; 1870653436784715027; 1435897921207620034; 2245007942206803064;
   2021821944066709579; 356755886151464469].
Proof. vm_compute. reflexivity. Qed.
