(* TDigestProofs.v — lemmas about the t-digest model.
   Part 1 (Section Generic): weight conservation for ANY number structure (no arithmetic law is used, so it holds for
   binary64 with NaN and infinities as well as for rationals).  Later parts: exact rationals. *)
From Coq Require Import ZArith List Bool QArith Lia Lqa Psatz Permutation Sorting.Sorted.
From DS Require Import RunnerLib TDigestDefs.
Import ListNotations.
Local Open Scope Z_scope.

Section Generic.
  Variable Ops : numops.
  Notation T := (num Ops).
  Notation centroid := (centroid Ops).
  Notation td := (td Ops).

  Definition sumw (l : list centroid) : Z := fold_right (fun c a => c_w Ops c + a) 0 l.

  Lemma sumw_app a b : sumw (a ++ b) = sumw a + sumw b.
  Proof. induction a; simpl; lia. Qed.
  Lemma sumw_rev a : sumw (rev a) = sumw a.
  Proof. induction a; simpl; auto. rewrite sumw_app. simpl. lia. Qed.
  Lemma sumw_ins x l : sumw (ins Ops x l) = c_w Ops x + sumw l.
  Proof. induction l; simpl; auto. destruct (nltb Ops _ _); simpl; lia. Qed.
  Lemma sumw_ssort l : sumw (ssort Ops l) = sumw l.
  Proof. induction l; simpl; auto. unfold ssort in *. simpl. rewrite sumw_ins. lia. Qed.
  Lemma sumw_single l : sumw (map (single Ops) l) = Z.of_nat (length l).
  Proof. induction l; [reflexivity|]. cbn [map sumw fold_right length single c_w]. rewrite Nat2Z.inj_succ. fold (sumw (map (single Ops) l)). lia. Qed.
  Lemma sum_w_fold l a : fold_left (fun a c => a + c_w Ops c) l a = a + sumw l.
  Proof. revert a; induction l; intros; simpl; [lia|]. rewrite IHl. lia. Qed.
  Lemma sum_w_sumw l : sum_w Ops l = sumw l.
  Proof. unfold sum_w. rewrite sum_w_fold. lia. Qed.

  Lemma sumw_greedy k cw rest : forall second cur done wsf,
    sumw (greedy Ops k cw rest second cur done wsf) = sumw done + c_w Ops cur + sumw rest.
  Proof.
    induction rest as [|it r IH]; intros; cbn [greedy].
    - rewrite sumw_rev. simpl. lia.
    - match goal with |- context [if ?b then _ else _] => destruct b end;
        rewrite IH; simpl; lia.
  Qed.

  (* centroids_weight_ = sum of the centroid weights *)
  Definition WInv (s : td) : Prop := t_cw Ops s = sumw (t_cents Ops s).

  Lemma ins_length x l : length (ins Ops x l) = S (length l).
  Proof. induction l; simpl; auto. destruct (nltb Ops _ _); simpl; auto. Qed.
  Lemma ssort_length l : length (ssort Ops l) = length l.
  Proof. induction l; simpl; auto. unfold ssort in *. simpl. rewrite ins_length. auto. Qed.

  Definition bsorted (r : bool) (l : list centroid) : list centroid := if r then rev (ssort Ops l) else ssort Ops l.
  Lemma bsorted_nil r l : bsorted r l = [] -> l = [].
  Proof.
    intro E. apply (f_equal (@length _)) in E. unfold bsorted in E.
    destruct r; [rewrite rev_length in E|]; rewrite ssort_length in E; destruct l; auto; discriminate.
  Qed.
  Lemma sumw_bsorted r l : sumw (bsorted r l) = sumw l.
  Proof. unfold bsorted. destruct r; [rewrite sumw_rev|]; apply sumw_ssort. Qed.

  Lemma merge_into_eq s tmp w : tmp ++ t_cents Ops s <> [] ->
    exists c0 rest, bsorted (t_rev Ops s) (tmp ++ t_cents Ops s) = c0 :: rest /\
      merge_into Ops s tmp w =
        (let cw := t_cw Ops s + w in
        let res := greedy Ops (t_k Ops s) cw rest true c0 [] (n0 Ops) in
        let cs := if t_rev Ops s then rev res else res in
        {| t_k := t_k Ops s; t_rev := negb (t_rev Ops s);
           t_min := nmin Ops (t_min Ops s) (hd_mean Ops (t_min Ops s) cs);
           t_max := nmax Ops (t_max Ops s) (c_mean Ops (last_c Ops cs (single Ops (t_max Ops s))));
           t_cents := cs; t_cw := cw; t_buf := [] |}).
  Proof.
    intro H. unfold merge_into. fold (bsorted (t_rev Ops s) (tmp ++ t_cents Ops s)).
    destruct (bsorted (t_rev Ops s) (tmp ++ t_cents Ops s)) as [|c0 rest] eqn:E.
    - apply bsorted_nil in E. contradiction.
    - exists c0, rest. auto.
  Qed.

  Lemma merge_into_cents_w s tmp w : tmp ++ t_cents Ops s <> [] ->
    sumw (t_cents Ops (merge_into Ops s tmp w)) = sumw tmp + sumw (t_cents Ops s).
  Proof.
    intro H. destruct (merge_into_eq s tmp w H) as (c0 & rest & E & ->). cbn [t_cents].
    pose proof (sumw_bsorted (t_rev Ops s) (tmp ++ t_cents Ops s)) as Hs. rewrite E, sumw_app in Hs. simpl in Hs.
    destruct (t_rev Ops s); [rewrite sumw_rev|]; rewrite sumw_greedy; simpl; lia.
  Qed.

  Lemma merge_into_cw s tmp w : tmp ++ t_cents Ops s <> [] -> t_cw Ops (merge_into Ops s tmp w) = t_cw Ops s + w.
  Proof. intro H. destruct (merge_into_eq s tmp w H) as (c0 & rest & E & ->). reflexivity. Qed.

  Lemma merge_into_buf s tmp w : tmp ++ t_cents Ops s <> [] -> t_buf Ops (merge_into Ops s tmp w) = [].
  Proof. intro H. destruct (merge_into_eq s tmp w H) as (c0 & rest & E & ->). reflexivity. Qed.

  Lemma WInv_merge_into s tmp w : WInv s -> tmp <> [] -> w = sumw tmp -> WInv (merge_into Ops s tmp w).
  Proof.
    intros Hs Ht Hw. assert (tmp ++ t_cents Ops s <> []) by (destruct tmp; [contradiction|discriminate]).
    unfold WInv. rewrite merge_into_cents_w, merge_into_cw by auto. rewrite Hs. lia.
  Qed.

  Lemma blen_total_compress s : td_total Ops (td_compress Ops s) = td_total Ops s.
  Proof.
    unfold td_compress. destruct (t_buf Ops s) eqn:E; auto.
    unfold td_total at 1. rewrite merge_into_cw by (simpl; discriminate).
    unfold blen. rewrite merge_into_buf by (simpl; discriminate).
    unfold td_total, blen. rewrite E. simpl length. lia.
  Qed.

  Lemma WInv_compress s : WInv s -> WInv (td_compress Ops s).
  Proof.
    intro H. unfold td_compress. destruct (t_buf Ops s) eqn:E; auto.
    apply WInv_merge_into; auto; try discriminate.
    unfold blen. rewrite E, sumw_single. reflexivity.
  Qed.

  Lemma WInv_update s v : WInv s -> WInv (td_update Ops s v).
  Proof.
    intro H. unfold td_update. destruct (nisnan Ops v); auto.
    destruct (blen Ops s =? _); unfold WInv; cbn [t_cw t_cents]; auto. apply WInv_compress; auto.
  Qed.

  Lemma total_update s v : td_total Ops (td_update Ops s v) = td_total Ops s + (if nisnan Ops v then 0 else 1).
  Proof.
    unfold td_update. destruct (nisnan Ops v); [lia|].
    set (s1 := if blen Ops s =? _ then _ else _).
    assert (td_total Ops s1 = td_total Ops s) by (unfold s1; destruct (_ =? _); auto using blen_total_compress).
    unfold td_total, blen in *. cbn [t_cw t_buf]. rewrite app_length, Nat2Z.inj_add. simpl. lia.
  Qed.

  Lemma is_empty_total s : WInv s -> td_is_empty Ops s = true -> td_total Ops s = 0.
  Proof.
    unfold td_is_empty, td_total, blen, WInv. intros H. destruct (t_cents Ops s); [|discriminate].
    destruct (t_buf Ops s); [|discriminate]. simpl in *. lia.
  Qed.

  Lemma merge_tmp_ne s o : td_is_empty Ops o = false ->
    map (single Ops) (t_buf Ops s) ++ map (single Ops) (t_buf Ops o) ++ t_cents Ops o <> [].
  Proof.
    unfold td_is_empty. intros H E. apply app_eq_nil in E as [_ E]. apply app_eq_nil in E as [E1 E2].
    rewrite E2 in H. destruct (t_buf Ops o); [discriminate|discriminate].
  Qed.

  Lemma WInv_merge s o : WInv s -> WInv o -> WInv (td_merge Ops s o).
  Proof.
    intros Hs Ho. unfold td_merge. destruct (td_is_empty Ops o) eqn:E; auto.
    apply WInv_merge_into; auto using merge_tmp_ne.
    rewrite !sumw_app, !sumw_single. unfold td_total, blen. rewrite Ho. lia.
  Qed.

  Lemma total_merge s o : WInv o -> td_total Ops (td_merge Ops s o) = td_total Ops s + td_total Ops o.
  Proof.
    intros Ho. unfold td_merge. destruct (td_is_empty Ops o) eqn:E.
    - rewrite (is_empty_total o); auto. lia.
    - pose proof (merge_tmp_ne s o E) as Hne.
      assert (H2 : (map (single Ops) (t_buf Ops s) ++ map (single Ops) (t_buf Ops o) ++ t_cents Ops o) ++ t_cents Ops s <> []).
      { intro X. apply app_eq_nil in X as [X _]. contradiction. }
      destruct (merge_into_eq s _ (blen Ops s + td_total Ops o) H2) as (c0 & rest & _ & ->).
      unfold td_total, blen. cbn [t_cw t_buf]. simpl length. lia.
  Qed.

  Lemma WInv_rank s v : WInv s -> WInv (fst (td_rank Ops s v)).
  Proof.
    intro H. unfold td_rank.
    repeat match goal with |- context [if ?b then _ else _] => destruct b; cbn [fst]; auto end.
    apply WInv_compress; auto.
  Qed.
  Lemma total_rank s v : td_total Ops (fst (td_rank Ops s v)) = td_total Ops s.
  Proof.
    unfold td_rank.
    repeat match goal with |- context [if ?b then _ else _] => destruct b; cbn [fst]; auto end.
    apply blen_total_compress.
  Qed.
  Lemma WInv_quantile s v : WInv s -> WInv (fst (td_quantile Ops s v)).
  Proof.
    intro H. unfold td_quantile.
    repeat match goal with |- context [if ?b then _ else _] => destruct b; cbn [fst]; auto end.
    apply WInv_compress; auto.
  Qed.
  Lemma total_quantile s v : td_total Ops (fst (td_quantile Ops s v)) = td_total Ops s.
  Proof.
    unfold td_quantile.
    repeat match goal with |- context [if ?b then _ else _] => destruct b; cbn [fst]; auto end.
    apply blen_total_compress.
  Qed.

  Lemma ranks_inv (P : td -> Prop) : (forall s v, P s -> P (fst (td_rank Ops s v))) ->
    forall l s, P s -> P (fst (ranks Ops s l)).
  Proof.
    intros HP. induction l; intros s Hs; cbn [ranks fst]; auto.
    specialize (HP s a Hs). destruct (td_rank Ops s a) as [s' [r|]]; cbn [fst] in *; auto.
    specialize (IHl s' HP). destruct (ranks Ops s' l) as [s'' [rs|]]; cbn [fst] in *; auto.
  Qed.
  Lemma cdf_inv (P : td -> Prop) : (forall s v, P s -> P (fst (td_rank Ops s v))) ->
    forall l s, P s -> P (fst (td_cdf Ops s l)).
  Proof.
    intros HP l s Hs. unfold td_cdf. destruct (td_is_empty Ops s); cbn [fst]; auto.
    destruct (split_ok Ops l); cbn [fst]; auto.
    pose proof (ranks_inv P HP l s Hs). destruct (ranks Ops s l) as [s' [rs|]]; cbn [fst] in *; auto.
  Qed.
  Lemma pmf_inv (P : td -> Prop) : (forall s v, P s -> P (fst (td_rank Ops s v))) ->
    forall l s, P s -> P (fst (td_pmf Ops s l)).
  Proof.
    intros HP l s Hs. unfold td_pmf. pose proof (cdf_inv P HP l s Hs).
    destruct (td_cdf Ops s l) as [s' [[|c0 t]|]]; cbn [fst] in *; auto.
  Qed.

  (* histories: every way of obtaining a digest through the modelled API, with the ghost list of accepted values *)
  Inductive reachable : td -> list T -> Prop :=
  | R_new k t : td_new Ops k = Some t -> reachable t []
  | R_update s vs v : reachable s vs -> reachable (td_update Ops s v) (if nisnan Ops v then vs else vs ++ [v])
  | R_merge s vs o vo : reachable s vs -> reachable o vo -> reachable (td_merge Ops s o) (vs ++ vo)
  | R_compress s vs : reachable s vs -> reachable (td_compress Ops s) vs
  | R_rank s vs v : reachable s vs -> reachable (fst (td_rank Ops s v)) vs
  | R_quantile s vs q : reachable s vs -> reachable (fst (td_quantile Ops s q)) vs
  | R_cdf s vs l : reachable s vs -> reachable (fst (td_cdf Ops s l)) vs
  | R_pmf s vs l : reachable s vs -> reachable (fst (td_pmf Ops s l)) vs
  | R_ser s vs wb : reachable s vs -> reachable (td_ser_src Ops s wb) vs
  | R_deser s vs t : reachable s vs -> td_deser Ops s = Some t -> reachable t vs.

  Definition nlen (vs : list T) : Z := Z.of_nat (length vs).

  Lemma td_make_inv rev k mn mx cs w buf t : td_make Ops rev k mn mx cs w buf = Some t ->
    t_cents Ops t = cs /\ t_cw Ops t = w /\ t_buf Ops t = buf /\ t_min Ops t = mn /\ t_max Ops t = mx /\ t_k Ops t = k /\ t_rev Ops t = rev.
  Proof. unfold td_make. destruct (k <? 10); [discriminate|]. intro H; inversion H; cbn; auto 10. Qed.

  Theorem weight_conservation s vs : reachable s vs -> WInv s /\ td_total Ops s = nlen vs.
  Proof.
    induction 1 as [k t Hn|s vs v H [IH1 IH2]|s vs o vo Hs [IH1 IH2] Ho [IH3 IH4]|s vs H [IH1 IH2]|s vs v H [IH1 IH2]
                   |s vs q H [IH1 IH2]|s vs l H [IH1 IH2]|s vs l H [IH1 IH2]|s vs wb H [IH1 IH2]|s vs t H [IH1 IH2] Hd].
    - apply td_make_inv in Hn as (A & B & C & _). unfold WInv, td_total, blen. rewrite A, B, C. simpl. auto.
    - split; [apply WInv_update; auto|]. rewrite total_update, IH2. unfold nlen.
      destruct (nisnan Ops v); [lia|]. rewrite app_length, Nat2Z.inj_add. simpl. lia.
    - split; [apply WInv_merge; auto|]. rewrite total_merge, IH2, IH4 by auto. unfold nlen. rewrite app_length. lia.
    - split; [apply WInv_compress; auto|]. rewrite blen_total_compress. auto.
    - split; [apply WInv_rank; auto|]. rewrite total_rank; auto.
    - split; [apply WInv_quantile; auto|]. rewrite total_quantile; auto.
    - apply (cdf_inv (fun s => WInv s /\ td_total Ops s = nlen vs)); auto.
      intros s0 v0 [A B]. split; [apply WInv_rank; auto|rewrite total_rank; auto].
    - apply (pmf_inv (fun s => WInv s /\ td_total Ops s = nlen vs)); auto.
      intros s0 v0 [A B]. split; [apply WInv_rank; auto|rewrite total_rank; auto].
    - unfold td_ser_src. destruct wb; auto. split; [apply WInv_compress; auto|rewrite blen_total_compress; auto].
    - unfold td_deser in Hd. destruct (td_is_empty Ops s) eqn:E.
      + apply td_make_inv in Hd as (A & B & C & _). rewrite (is_empty_total s) in IH2 by auto.
        unfold WInv, td_total, blen. rewrite A, B, C. simpl. auto.
      + destruct (td_total Ops s =? 1) eqn:E1.
        * apply td_make_inv in Hd as (A & B & C & _). apply Z.eqb_eq in E1.
          unfold WInv, td_total, blen. rewrite A, B, C. simpl. split; [auto|lia].
        * apply td_make_inv in Hd as (A & B & C & _).
          unfold WInv, td_total, blen in *. rewrite A, B, C. rewrite sum_w_sumw. split; [auto|lia].
  Qed.
End Generic.

(* ------------------------------------------------------------------------------------------------------------------
   Part 2: exact rationals.  [ln] arbitrary; pinf / ninf arbitrary (hypotheses about them appear where needed). *)
Local Open Scope Q_scope.
Arguments nltb : simpl never.
Arguments nleb : simpl never.
Arguments neqb : simpl never.
Arguments nadd : simpl never.
Arguments nsub : simpl never.
Arguments nmul : simpl never.
Arguments ndiv : simpl never.
Arguments nofZ : simpl never.
Arguments nln : simpl never.

Section Exact.
  Variable ln : Q -> Q.
  Variables pinf ninf : Q.
  Notation QO := (qops ln pinf ninf).
  Notation cq := (centroid QO).
  Notation tq := (td QO).
  Notation mean := (c_mean QO).
  Notation wt := (c_w QO).

  Lemma ltb_lt (a b : Q) : nltb QO a b = true <-> a < b.
  Proof.
    change (nltb QO a b) with (negb (Qle_bool b a)). rewrite negb_true_iff. split; intro H.
    - apply Qnot_le_lt. intro X. apply Qle_bool_iff in X. congruence.
    - destruct (Qle_bool b a) eqn:E; auto. apply Qle_bool_iff in E. exfalso. apply (Qlt_not_le _ _ H E).
  Qed.
  Lemma ltb_ge (a b : Q) : nltb QO a b = false <-> b <= a.
  Proof.
    change (nltb QO a b) with (negb (Qle_bool b a)). rewrite negb_false_iff. apply Qle_bool_iff.
  Qed.
  Lemma leb_le (a b : Q) : nleb QO a b = true <-> a <= b.
  Proof. change (nleb QO a b) with (Qle_bool a b). apply Qle_bool_iff. Qed.
  Lemma leb_gt (a b : Q) : nleb QO a b = false <-> b < a.
  Proof.
    change (nleb QO a b) with (Qle_bool a b). split; intro H.
    - apply Qnot_le_lt. intro X. apply Qle_bool_iff in X. congruence.
    - destruct (Qle_bool a b) eqn:E; auto. apply Qle_bool_iff in E. exfalso. apply (Qlt_not_le _ _ H E).
  Qed.

  Definition mle (a b : cq) : Prop := mean a <= mean b.
  Definition mge (a b : cq) : Prop := mean b <= mean a.

  Lemma nmin_spec (a b : Q) : (nmin QO a b == a \/ nmin QO a b == b) /\ nmin QO a b <= a /\ nmin QO a b <= b.
  Proof.
    unfold nmin. destruct (nltb QO b a) eqn:E.
    - apply ltb_lt in E. split; [right; reflexivity|]. split; [apply Qlt_le_weak; auto|apply Qle_refl].
    - apply ltb_ge in E. split; [left; reflexivity|]. split; [apply Qle_refl|auto].
  Qed.
  Lemma nmax_spec (a b : Q) : (nmax QO a b == a \/ nmax QO a b == b) /\ a <= nmax QO a b /\ b <= nmax QO a b.
  Proof.
    unfold nmax. destruct (nltb QO a b) eqn:E.
    - apply ltb_lt in E. split; [right; reflexivity|]. split; [apply Qlt_le_weak; auto|apply Qle_refl].
    - apply ltb_ge in E. split; [left; reflexivity|]. split; [apply Qle_refl|auto].
  Qed.

  (* ---- the stable sort ---- *)
  Lemma ins_perm x l : Permutation (ins QO x l) (x :: l).
  Proof.
    induction l; simpl; auto. destruct (nltb QO _ _); auto.
    eapply perm_trans; [apply perm_skip, IHl|apply perm_swap].
  Qed.
  Lemma ssort_perm l : Permutation (ssort QO l) l.
  Proof.
    induction l; simpl; auto. unfold ssort in *. simpl.
    eapply perm_trans; [apply ins_perm|]. auto.
  Qed.

  Lemma ins_sorted x l : StronglySorted mle l -> StronglySorted mle (ins QO x l).
  Proof.
    induction 1 as [|y t Ht IH Hy]; simpl.
    - repeat constructor.
    - destruct (nltb QO (mean y) (mean x)) eqn:E.
      + apply ltb_lt in E. constructor; auto.
        eapply Permutation_Forall; [symmetry; apply ins_perm|]. constructor; auto.
        unfold mle. auto with qarith.
      + apply ltb_ge in E. constructor; [constructor; auto|].
        constructor; [exact E|]. eapply Forall_impl; [|exact Hy]. intros a Ha. unfold mle in *. eapply Qle_trans; eauto.
  Qed.
  Lemma ssort_sorted l : StronglySorted mle (ssort QO l).
  Proof. induction l; simpl; [constructor|]. unfold ssort in *. simpl. apply ins_sorted; auto. Qed.

  (* the first element of the sorted list is the EARLIEST element of minimal mean *)
  Lemma ssort_hd_split l : l <> [] ->
    exists l1 m l2 t, l = l1 ++ m :: l2 /\ ssort QO l = m :: t /\
      (forall e, In e l1 -> mean m < mean e) /\ (forall e, In e l2 -> mean m <= mean e).
  Proof.
    induction l as [|x l IH]; [congruence|]. intros _.
    destruct l as [|y l'].
    - exists [], x, [], []. simpl. repeat split; auto; intros e [].
    - destruct IH as (l1 & m & l2 & t & E & Es & H1 & H2); [discriminate|].
      unfold ssort in *. cbn [fold_right] in *. rewrite Es. cbn [ins].
      destruct (nltb QO (mean m) (mean x)) eqn:C.
      + apply ltb_lt in C. exists (x :: l1), m, l2, (ins QO x t). rewrite E. repeat split; auto.
        intros e [<-|He]; auto.
      + apply ltb_ge in C. exists [], x, (y :: l'), (m :: t). repeat split; auto; [intros e []|].
        intros e He. rewrite E in He. apply in_app_or in He as [He|[<-|He]]; auto.
        * apply Qlt_le_weak. eapply Qle_lt_trans; [exact C|]. auto.
        * eapply Qle_trans; [exact C|]. auto.
  Qed.

  Lemma ins_last_keep x s m t : s = t ++ [m] -> nltb QO (mean m) (mean x) = false -> exists t', ins QO x s = t' ++ [m].
  Proof.
    revert t. induction s as [|y s IH]; intros t E C.
    - destruct t; discriminate.
    - cbn [ins]. destruct (nltb QO (mean y) (mean x)) eqn:D.
      + destruct t as [|z t].
        * simpl in E. inversion E; subst. congruence.
        * simpl in E. inversion E; subst. destruct (IH t eq_refl C) as (t' & ->). exists (z :: t'). reflexivity.
      + exists (x :: t). rewrite E. reflexivity.
  Qed.
  Lemma ins_last_new x s : (forall e, In e s -> mean e < mean x) -> ins QO x s = s ++ [x].
  Proof.
    induction s as [|y s IH]; intro H; simpl; auto.
    assert (nltb QO (mean y) (mean x) = true) as -> by (apply ltb_lt, H; left; auto).
    rewrite IH; auto. intros e He. apply H. right; auto.
  Qed.

  (* the last element of the sorted list is the LATEST element of maximal mean *)
  Lemma ssort_last_split l : l <> [] ->
    exists l1 m l2 t, l = l1 ++ m :: l2 /\ ssort QO l = t ++ [m] /\
      (forall e, In e l1 -> mean e <= mean m) /\ (forall e, In e l2 -> mean e < mean m).
  Proof.
    induction l as [|x l IH]; [congruence|]. intros _.
    destruct l as [|y l'].
    - exists [], x, [], []. simpl. repeat split; auto; intros e [].
    - destruct IH as (l1 & m & l2 & t & E & Es & H1 & H2); [discriminate|].
      unfold ssort in *. cbn [fold_right] in *.
      destruct (nltb QO (mean m) (mean x)) eqn:C.
      + apply ltb_lt in C. exists [], x, (y :: l'), (fold_right (ins QO) [] (y :: l')). repeat split; auto; [|intros e []|].
        * cbn [fold_right]. apply ins_last_new. intros e He.
          assert (In e (y :: l')). { eapply Permutation_in; [apply (ssort_perm (y :: l'))|exact He]. }
          rewrite E in H. apply in_app_or in H as [H|[<-|H]]; auto.
          -- eapply Qle_lt_trans; [apply H1; auto|auto].
          -- eapply Qlt_trans; [apply H2; auto|auto].
        * intros e He. rewrite E in He. apply in_app_or in He as [He|[<-|He]]; auto.
          -- eapply Qle_lt_trans; [apply H1; auto|auto].
          -- eapply Qlt_trans; [apply H2; auto|auto].
      + destruct (ins_last_keep x _ m t Es C) as (t' & Et). exists (x :: l1), m, l2, t'. rewrite E. repeat split; auto.
        apply ltb_ge in C. intros e [<-|He]; auto.
  Qed.

  (* ---- arithmetic of centroid::add ---- *)
  Ltac qred := change (nadd QO) with Qplus in *; change (nsub QO) with Qminus in *; change (nmul QO) with Qmult in *;
               change (ndiv QO) with Qdiv in *; change (nofZ QO) with inject_Z in *; change (num QO) with Q in *.

  Lemma injZ_pos z : (1 <= z)%Z -> 1 <= inject_Z z.
  Proof. intro H. change 1 with (inject_Z 1). rewrite <- Zle_Qle. exact H. Qed.

  Lemma frac_between_pos (d A B : Q) : 0 < A -> A <= B -> 0 <= d -> 0 <= d * A / B /\ d * A / B <= d.
  Proof.
    intros HA HB Hd. assert (0 < B) by (eapply Qlt_le_trans; eauto). split.
    - apply Qle_shift_div_l; auto. nra.
    - apply Qle_shift_div_r; auto. nra.
  Qed.
  Lemma frac_between_neg (d A B : Q) : 0 < A -> A <= B -> d <= 0 -> d <= d * A / B /\ d * A / B <= 0.
  Proof.
    intros HA HB Hd. assert (0 < B) by (eapply Qlt_le_trans; eauto). split.
    - apply Qle_shift_div_l; auto. nra.
    - apply Qle_shift_div_r; auto. nra.
  Qed.

  Lemma c_add_mean (a b : cq) :
    mean (c_add QO a b) = mean a + (mean b - mean a) * inject_Z (wt b) / inject_Z (wt a + wt b).
  Proof. reflexivity. Qed.
  Lemma c_add_w (a b : cq) : wt (c_add QO a b) = (wt a + wt b)%Z.
  Proof. reflexivity. Qed.

  Lemma wAB (a b : cq) : (1 <= wt a)%Z -> (1 <= wt b)%Z -> 0 < inject_Z (wt b) /\ inject_Z (wt b) <= inject_Z (wt a + wt b).
  Proof.
    intros Ha Hb. split.
    - apply Qlt_le_trans with 1; [reflexivity|apply injZ_pos; auto].
    - rewrite <- Zle_Qle. lia.
  Qed.

  Lemma c_add_between_le (a b : cq) : (1 <= wt a)%Z -> (1 <= wt b)%Z -> mean a <= mean b ->
    mean a <= mean (c_add QO a b) /\ mean (c_add QO a b) <= mean b.
  Proof.
    intros Ha Hb H. rewrite c_add_mean. destruct (wAB a b Ha Hb) as [A B].
    destruct (frac_between_pos (mean b - mean a) _ _ A B) as [X Y]; [lra|]. split; lra.
  Qed.
  Lemma c_add_between_ge (a b : cq) : (1 <= wt a)%Z -> (1 <= wt b)%Z -> mean b <= mean a ->
    mean b <= mean (c_add QO a b) /\ mean (c_add QO a b) <= mean a.
  Proof.
    intros Ha Hb H. rewrite c_add_mean. destruct (wAB a b Ha Hb) as [A B].
    destruct (frac_between_neg (mean b - mean a) _ _ A B) as [X Y]; [lra|]. split; lra.
  Qed.

  (* direction of a pass: ascending (true) or descending (false) *)
  Definition Rd (dir : bool) (x y : Q) : Prop := if dir then x <= y else y <= x.
  Definition Rc (dir : bool) (a b : cq) : Prop := Rd dir (mean a) (mean b).
  Lemma Rd_refl dir x : Rd dir x x.
  Proof. destruct dir; apply Qle_refl. Qed.
  Lemma Rd_trans dir x y z : Rd dir x y -> Rd dir y z -> Rd dir x z.
  Proof. destruct dir; simpl; intros; eapply Qle_trans; eauto. Qed.
  Lemma c_add_between dir (a b : cq) : (1 <= wt a)%Z -> (1 <= wt b)%Z -> Rc dir a b ->
    Rc dir a (c_add QO a b) /\ Rc dir (c_add QO a b) b.
  Proof.
    unfold Rc. destruct dir; simpl; intros Ha Hb H.
    - apply c_add_between_le; auto.
    - destruct (c_add_between_ge a b Ha Hb H). split; auto.
  Qed.

  Lemma SS_snoc (R : cq -> cq -> Prop) l x : StronglySorted R l -> Forall (fun d => R d x) l -> StronglySorted R (l ++ [x]).
  Proof.
    induction 1 as [|y t Ht IH Hy]; intro F; simpl.
    - repeat constructor.
    - inversion F; subst. constructor; auto. apply Forall_app; split; auto.
  Qed.

  Definition wpos (l : list cq) : Prop := Forall (fun c => (1 <= wt c)%Z) l.

  Lemma greedy_sorted dir k cw rest : forall second cur done wsf,
    wpos (cur :: rest) ->
    StronglySorted (Rc dir) (cur :: rest) ->
    StronglySorted (Rc dir) (rev done) -> Forall (fun d => Rc dir d cur) done ->
    StronglySorted (Rc dir) (greedy QO k cw rest second cur done wsf).
  Proof.
    induction rest as [|it r IH]; intros second cur done wsf Hw Hs Hd Hdc; cbn [greedy].
    - simpl. apply SS_snoc; auto. apply Forall_rev; auto.
    - inversion Hw as [|? ? Hwc Hwr]; subst. inversion Hwr as [|? ? Hwi Hwr']; subst.
      inversion Hs as [|? ? Hsr Hcr]; subst. inversion Hcr as [|? ? Hci Hcr']; subst.
      inversion Hsr as [|? ? Hsr' Hir]; subst.
      match goal with |- context [if ?b then _ else _] => destruct b end.
      + destruct (c_add_between dir cur it Hwc Hwi Hci) as [B1 B2].
        apply IH; auto.
        * constructor; auto. rewrite c_add_w. lia.
        * constructor; auto. eapply Forall_impl; [|exact Hir]. intros a Ha. unfold Rc in *. eapply Rd_trans; eauto.
        * eapply Forall_impl; [|exact Hdc]. intros a Ha. unfold Rc in *. eapply Rd_trans; eauto.
      + apply IH; auto.
        * simpl. apply SS_snoc; auto. apply Forall_rev; auto.
        * constructor; auto. eapply Forall_impl; [|exact Hdc]. intros a Ha. unfold Rc in *. eapply Rd_trans; eauto.
  Qed.

  Lemma greedy_wpos k cw rest : forall second cur done wsf,
    wpos (cur :: rest) -> wpos done -> wpos (greedy QO k cw rest second cur done wsf).
  Proof.
    induction rest as [|it r IH]; intros second cur done wsf Hw Hd; cbn [greedy].
    - apply Forall_rev. inversion Hw; subst. constructor; auto.
    - inversion Hw as [|? ? Hwc Hwr]; subst. inversion Hwr as [|? ? Hwi Hwr']; subst.
      match goal with |- context [if ?b then _ else _] => destruct b end; apply IH; auto.
      + constructor; auto. rewrite c_add_w. lia.
      + constructor; auto.
  Qed.

  (* every mean of the result lies between bounds that hold for the input means *)
  Definition within (lo hi : Q) (l : list cq) : Prop := Forall (fun c => lo <= mean c /\ mean c <= hi) l.

  Lemma c_add_within lo hi (a b : cq) : (1 <= wt a)%Z -> (1 <= wt b)%Z ->
    lo <= mean a <= hi -> lo <= mean b <= hi -> lo <= mean (c_add QO a b) <= hi.
  Proof.
    intros Ha Hb [A1 A2] [B1 B2]. destruct (Qlt_le_dec (mean b) (mean a)) as [C|C].
    - destruct (c_add_between_ge a b Ha Hb (Qlt_le_weak _ _ C)) as [X Y].
      split; [apply Qle_trans with (mean b); auto|apply Qle_trans with (mean a); auto].
    - destruct (c_add_between_le a b Ha Hb C) as [X Y].
      split; [apply Qle_trans with (mean a); auto|apply Qle_trans with (mean b); auto].
  Qed.

  Lemma greedy_within lo hi k cw rest : forall second cur done wsf,
    wpos (cur :: rest) -> within lo hi (cur :: rest) -> within lo hi done ->
    within lo hi (greedy QO k cw rest second cur done wsf).
  Proof.
    induction rest as [|it r IH]; intros second cur done wsf Hw Hc Hd; cbn [greedy].
    - apply Forall_rev. inversion Hc; subst. constructor; auto.
    - inversion Hw as [|? ? Hwc Hwr]; subst. inversion Hwr as [|? ? Hwi Hwr']; subst.
      inversion Hc as [|? ? Hcc Hcr]; subst. inversion Hcr as [|? ? Hci Hcr']; subst.
      match goal with |- context [if ?b then _ else _] => destruct b end; apply IH; auto.
      + constructor; auto. rewrite c_add_w. lia.
      + constructor; auto. apply c_add_within; auto.
      + constructor; auto.
  Qed.

  (* the first input element stays the first centroid, alone *)
  Lemma greedy_prefix k cw rest : forall second cur done wsf,
    exists X, greedy QO k cw rest second cur done wsf = rev done ++ X /\ X <> [].
  Proof.
    induction rest as [|it r IH]; intros; cbn [greedy].
    - exists [cur]. simpl. split; auto. discriminate.
    - match goal with |- context [if ?b then _ else _] => destruct b end.
      + apply IH.
      + destruct (IH false it (cur :: done) (nadd QO wsf (nofZ QO (wt cur)))) as (X & -> & HX).
        exists (cur :: X). simpl. rewrite <- app_assoc. split; auto. discriminate.
  Qed.
  Lemma greedy_first k cw rest c0 wsf : exists X, greedy QO k cw rest true c0 [] wsf = c0 :: X.
  Proof.
    destruct rest as [|it r]; cbn [greedy].
    - exists []. reflexivity.
    - destruct (greedy_prefix k cw r false it [c0] (nadd QO wsf (nofZ QO (wt c0)))) as (X & -> & _).
      exists X. reflexivity.
  Qed.

  (* the last input element is never merged: q2 = 1 makes the size limit 0 whatever the normaliser is *)
  Lemma last_guard k cw (wsf : Q) (cur it : cq) (q0n : Q) :
    (1 <= wt cur)%Z -> (1 <= wt it)%Z -> wsf + inject_Z (wt cur + wt it) == inject_Z cw -> 0 <= wsf ->
    let proposed := nofZ QO (wt cur + wt it)%Z in
    let cwn := nofZ QO cw in
    let q2 := ndiv QO (nadd QO wsf proposed) cwn in
    let normalizer := sf_normalizer QO (nofZ QO (2 * k)) cwn in
    nleb QO proposed (nmul QO cwn (nmin QO q0n (sf_max QO q2 normalizer))) = false.
  Proof.
    intros Hc Hi Hsum Hw. cbv zeta. apply leb_gt.
    set (nz := sf_normalizer QO (nofZ QO (2 * k)) (nofZ QO cw)).
    assert (P2 : 2 <= inject_Z (wt cur + wt it)). { change 2 with (inject_Z 2). rewrite <- Zle_Qle. lia. }
    assert (Hcw : 0 < inject_Z cw) by lra.
    assert (Q2 : ndiv QO (nadd QO wsf (nofZ QO (wt cur + wt it))) (nofZ QO cw) == 1).
    { qred. rewrite Hsum. field. lra. }
    assert (M0 : sf_max QO (ndiv QO (nadd QO wsf (nofZ QO (wt cur + wt it))) (nofZ QO cw)) nz == 0).
    { unfold sf_max. cbv zeta. unfold n1. qred. rewrite Q2. unfold Qdiv. change (inject_Z 1) with 1. ring. }
    destruct (nmin_spec q0n (sf_max QO (ndiv QO (nadd QO wsf (nofZ QO (wt cur + wt it))) (nofZ QO cw)) nz)) as (_ & _ & L).
    set (m := nmin QO q0n _) in *.
    assert (L' : m <= 0). { eapply Qle_trans; [exact L|]. apply Qle_lteq. right. exact M0. }
    qred. clearbody m. clear L M0 Q2.
    apply Qle_lt_trans with 0; [|lra]. nra.
  Qed.

  Lemma greedy_last k cw rest (d : cq) : forall second cur done wsf,
    rest <> [] -> wpos (cur :: rest) -> wpos done ->
    wsf == inject_Z (sumw QO done) -> cw = (sumw QO done + wt cur + sumw QO rest)%Z ->
    last (greedy QO k cw rest second cur done wsf) d = last rest d.
  Proof.
    induction rest as [|it r IH]; intros second cur done wsf Hne Hw Hd Hwsf Hcw; [congruence|].
    inversion Hw as [|? ? Hwc Hwr]; subst cw. inversion Hwr as [|? ? Hwi Hwr']; subst.
    assert (Hsd : (0 <= sumw QO done)%Z).
    { clear -Hd. induction Hd; simpl; lia. }
    cbn [greedy]. cbv zeta.
    destruct r as [|it2 r].
    - (* [it] is the last element *)
      assert (E : (if second then false else
                 nleb QO (nofZ QO (wt cur + wt it))
                   (nmul QO (nofZ QO (sumw QO done + wt cur + sumw QO [it]))
                      (nmin QO (sf_max QO (ndiv QO wsf (nofZ QO (sumw QO done + wt cur + sumw QO [it])))
                                  (sf_normalizer QO (nofZ QO (2 * k)) (nofZ QO (sumw QO done + wt cur + sumw QO [it]))))
                               (sf_max QO (ndiv QO (nadd QO wsf (nofZ QO (wt cur + wt it))) (nofZ QO (sumw QO done + wt cur + sumw QO [it])))
                                  (sf_normalizer QO (nofZ QO (2 * k)) (nofZ QO (sumw QO done + wt cur + sumw QO [it]))))))) = false).
      { destruct second; auto. apply last_guard; auto.
        - rewrite Hwsf. rewrite <- inject_Z_plus. simpl sumw. apply inject_Z_injective. lia.
        - rewrite Hwsf. change 0 with (inject_Z 0). rewrite <- Zle_Qle. auto. }
      rewrite E. cbn [greedy]. simpl rev. rewrite last_last. reflexivity.
    - match goal with |- context [if ?b then _ else _] => destruct b end.
      + rewrite IH; auto; try discriminate.
        * constructor; auto. rewrite c_add_w. lia.
        * rewrite c_add_w. simpl. lia.
      + rewrite IH; auto; try discriminate.
        * constructor; auto.
        * qred. rewrite Hwsf, <- inject_Z_plus. simpl. apply inject_Z_injective. lia.
        * simpl. lia.
  Qed.


  (* ---- the compression pass as a function of the input list ---- *)
  Definition light (c : cq) : Prop := wt c = 1%Z.
  Definition GuardL (l : list cq) : Prop :=
    forall l1 h l2, l = l1 ++ h :: l2 -> wt h <> 1%Z -> exists e, In e l1 /\ light e /\ mean e <= mean h.
  Definition GuardR (l : list cq) : Prop :=
    forall l1 h l2, l = l1 ++ h :: l2 -> wt h <> 1%Z -> exists e, In e l2 /\ light e /\ mean h <= mean e.

  Definition merged (rv : bool) (k cw : Z) (L : list cq) : list cq :=
    match bsorted QO rv L with
    | [] => []
    | c0 :: rest => let res := greedy QO k cw rest true c0 [] (n0 QO) in if rv then rev res else res
    end.

  Lemma SS_rev (R : cq -> cq -> Prop) l : StronglySorted R l -> StronglySorted (fun a b => R b a) (rev l).
  Proof.
    induction 1 as [|x t Ht IH Hx]; simpl; [constructor|].
    apply SS_snoc; auto. apply Forall_rev. auto.
  Qed.
  Lemma last_rev (l : list cq) d : last (rev l) d = hd d l.
  Proof. destruct l; simpl; auto. apply last_last. Qed.
  Lemma last_snoc_form (l : list cq) d : l <> [] -> exists t, l = t ++ [last l d].
  Proof. intro H. exists (removelast l). apply app_removelast_last; auto. Qed.

  Lemma merged_spec rv k L : L <> [] -> wpos L -> GuardL L -> GuardR L ->
    let cs := merged rv k (sumw QO L) L in
    wpos cs /\ StronglySorted mle cs /\ sumw QO cs = sumw QO L /\
    exists f la t1 t2, cs = f :: t1 /\ cs = t2 ++ [la] /\ light f /\ light la /\ In f L /\ In la L /\
      (forall e, In e L -> mean f <= mean e /\ mean e <= mean la) /\
      (forall lo hi, within lo hi L -> within lo hi cs).
  Proof.
    intros Hne Hw HGL HGR cs.
    destruct (ssort_hd_split L Hne) as (l1 & m & l2 & t & EL & Es & Hm1 & Hm2).
    destruct (ssort_last_split L Hne) as (l1' & M & l2' & t' & EL' & Es' & HM1 & HM2).
    assert (Lm : light m).
    { destruct (Z.eq_dec (wt m) 1) as [E|E]; auto. destruct (HGL l1 m l2 EL E) as (e & He & _ & Hle).
      exfalso. apply (Qlt_not_le _ _ (Hm1 e He) Hle). }
    assert (LM : light M).
    { destruct (Z.eq_dec (wt M) 1) as [E|E]; auto. destruct (HGR l1' M l2' EL' E) as (e & He & _ & Hle).
      exfalso. apply (Qlt_not_le _ _ (HM2 e He) Hle). }
    assert (Hmin : forall e, In e L -> mean m <= mean e).
    { intros e He. rewrite EL in He. apply in_app_or in He as [He|[<-|He]]; auto using Qlt_le_weak, Qle_refl. }
    assert (Hmax : forall e, In e L -> mean e <= mean M).
    { intros e He. rewrite EL' in He. apply in_app_or in He as [He|[<-|He]]; auto using Qlt_le_weak, Qle_refl. }
    assert (Inm : In m L) by (rewrite EL; apply in_or_app; right; left; auto).
    assert (InM : In M L) by (rewrite EL'; apply in_or_app; right; left; auto).
    pose proof (ssort_perm L) as HP. pose proof (ssort_sorted L) as HS.
    assert (Hws : wpos (ssort QO L)) by (eapply Permutation_Forall; [symmetry; exact HP|exact Hw]).
    assert (Hsum : sumw QO (ssort QO L) = sumw QO L) by apply sumw_ssort.
    assert (Hwithin : forall lo hi, within lo hi L -> within lo hi (ssort QO L)).
    { intros lo hi H. eapply Permutation_Forall; [symmetry; exact HP|exact H]. }
    unfold cs, merged, bsorted. destruct rv.
    - (* descending pass *)
      rewrite Es'. rewrite rev_app_distr. simpl app.
      set (res := greedy QO k (sumw QO L) (rev t') true M [] (n0 QO)).
      assert (Hrw : wpos (M :: rev t')).
      { rewrite Es' in Hws. apply Forall_app in Hws as [A B]. inversion B; subst. constructor; auto. apply Forall_rev; auto. }
      assert (Hrs : StronglySorted (Rc false) (M :: rev t')).
      { pose proof (SS_rev mle _ HS) as X. rewrite Es', rev_app_distr in X. exact X. }
      assert (Hsum2 : sumw QO L = (sumw QO [] + wt M + sumw QO (rev t'))%Z).
      { rewrite <- Hsum, Es', sumw_app, sumw_rev. simpl. lia. }
      destruct (greedy_first k (sumw QO L) (rev t') M (n0 QO)) as (X & EX). fold res in EX.
      assert (Hlast : last res m = m).
      { destruct (rev t') as [|y r] eqn:Er.
        - unfold res. cbn [greedy]. simpl.
          assert (t' = []) by (destruct t'; auto; simpl in Er; destruct (rev t'); discriminate). subst t'.
          simpl in Es'. rewrite Es in Es'. inversion Es'; auto.
        - unfold res. rewrite greedy_last; auto; try discriminate; try constructor; try reflexivity.
          rewrite <- Er. replace (last (rev t') m) with (last (rev (ssort QO L)) m).
          + rewrite last_rev, Es. reflexivity.
          + rewrite Es', rev_app_distr. simpl. destruct (rev t'); [discriminate|reflexivity]. }
      assert (Hres_ne : res <> []) by (rewrite EX; discriminate).
      destruct (last_snoc_form res m Hres_ne) as (X' & EX'). rewrite Hlast in EX'.
      split; [apply Forall_rev, greedy_wpos; auto; constructor|].
      split. { pose proof (SS_rev _ _ (greedy_sorted false k (sumw QO L) (rev t') true M [] (n0 QO) Hrw Hrs (SSorted_nil _) (Forall_nil _))) as Y. exact Y. }
      split. { rewrite sumw_rev. unfold res. rewrite sumw_greedy. lia. }
      exists m, M, (rev X'), (rev X). fold res.
      split; [rewrite EX', rev_app_distr; reflexivity|].
      split; [rewrite EX; reflexivity|].
      repeat (split; auto).
      intros lo hi H. apply Forall_rev, greedy_within; auto; [|constructor].
      specialize (Hwithin lo hi H). rewrite Es' in Hwithin. apply Forall_app in Hwithin as [A B]. inversion B; subst.
      constructor; auto. apply Forall_rev; auto.
    - (* ascending pass *)
      rewrite Es.
      set (res := greedy QO k (sumw QO L) t true m [] (n0 QO)).
      assert (Hrw : wpos (m :: t)) by (rewrite <- Es; auto).
      assert (Hrs : StronglySorted (Rc true) (m :: t)) by (rewrite <- Es; exact HS).
      assert (Hsum2 : sumw QO L = (sumw QO [] + wt m + sumw QO t)%Z).
      { rewrite <- Hsum, Es. simpl. lia. }
      destruct (greedy_first k (sumw QO L) t m (n0 QO)) as (X & EX). fold res in EX.
      assert (Hlast : last res M = M).
      { destruct t as [|y r] eqn:Er.
        - unfold res. cbn [greedy]. simpl. rewrite Es in Es'. destruct t'; simpl in Es'; inversion Es'; auto.
          destruct t'; discriminate.
        - unfold res. rewrite greedy_last; auto; try discriminate; try constructor; try reflexivity.
          replace (last (y :: r) M) with (last (ssort QO L) M).
          + rewrite Es'. apply last_last.
          + rewrite Es. reflexivity. }
      assert (Hres_ne : res <> []) by (rewrite EX; discriminate).
      destruct (last_snoc_form res M Hres_ne) as (X' & EX'). rewrite Hlast in EX'.
      split; [apply greedy_wpos; auto; constructor|].
      split. { exact (greedy_sorted true k (sumw QO L) t true m [] (n0 QO) Hrw Hrs (SSorted_nil _) (Forall_nil _)). }
      split. { unfold res. rewrite sumw_greedy. lia. }
      exists m, M, X, X'.
      repeat (split; auto).
      intros lo hi H. apply greedy_within; auto; [|constructor].
      specialize (Hwithin lo hi H). rewrite Es in Hwithin. exact Hwithin.
  Qed.


  (* ---- guards of the lists handed to the compression pass ---- *)
  Lemma GuardL_app a b : GuardL a -> GuardL b -> GuardL (a ++ b).
  Proof.
    intros Ha Hb l1 h l2 E Hh. apply app_eq_app in E as [l [[E1 E2]|[E1 E2]]].
    - destruct l as [|h' l'].
      + simpl in E2. destruct (Hb [] h l2 (eq_sym E2) Hh) as (e & [] & _).
      + simpl in E2. inversion E2; subst h' l2. destruct (Ha l1 h l' E1 Hh) as (e & He & X). exists e. auto.
    - destruct (Hb l h l2 E2 Hh) as (e & He & X). exists e. split; auto. rewrite E1. apply in_or_app; auto.
  Qed.
  Lemma GuardR_app a b : GuardR a -> GuardR b -> GuardR (a ++ b).
  Proof.
    intros Ha Hb l1 h l2 E Hh. apply app_eq_app in E as [l [[E1 E2]|[E1 E2]]].
    - destruct l as [|h' l'].
      + simpl in E2. destruct (Hb [] h l2 (eq_sym E2) Hh) as (e & He & X). exists e. auto.
      + simpl in E2. inversion E2; subst h' l2. destruct (Ha l1 h l' E1 Hh) as (e & He & X). exists e. split; auto.
        apply in_or_app; auto.
    - destruct (Hb l h l2 E2 Hh) as (e & He & X). exists e. auto.
  Qed.
  Lemma single_light l h : In h (map (single QO) l) -> wt h = 1%Z.
  Proof. intro H. apply in_map_iff in H as (v & <- & _). reflexivity. Qed.
  Lemma GuardL_singles l : GuardL (map (single QO) l).
  Proof.
    intros l1 h l2 E Hh. exfalso. apply Hh, (single_light l). rewrite E. apply in_or_app. right; left; auto.
  Qed.
  Lemma GuardR_singles l : GuardR (map (single QO) l).
  Proof.
    intros l1 h l2 E Hh. exfalso. apply Hh, (single_light l). rewrite E. apply in_or_app. right; left; auto.
  Qed.
  Lemma wpos_singles l : wpos (map (single QO) l).
  Proof. apply Forall_forall. intros h H. rewrite (single_light l h H). lia. Qed.

  Lemma SS_app_mid (R : cq -> cq -> Prop) l1 h l2 : StronglySorted R (l1 ++ h :: l2) -> forall e, In e l2 -> R h e.
  Proof.
    induction l1; simpl; intro H; inversion H; subst; auto.
    intros e He. eapply Forall_forall; eauto.
  Qed.

  (* invariant of the centroid list *)
  Record CInv (cs : list cq) : Prop := {
    ci_pos : wpos cs;
    ci_sorted : StronglySorted mle cs;
    ci_first : forall f t, cs = f :: t -> light f;
    ci_last : forall la t, cs = t ++ [la] -> light la }.

  Lemma CInv_nil : CInv [].
  Proof. split; try constructor; intros; try discriminate. destruct t; discriminate. Qed.

  Lemma CInv_GuardL cs : CInv cs -> GuardL cs.
  Proof.
    intros [Hp Hs Hf Hl] l1 h l2 E Hh. destruct l1 as [|f l1'].
    - exfalso. apply Hh. apply (Hf h l2). auto.
    - exists f. split; [left; auto|]. split; [apply (Hf f (l1' ++ h :: l2)); auto|].
      rewrite E in Hs. simpl in Hs. inversion Hs; subst.
      match goal with H : Forall (mle f) _ |- _ => rewrite Forall_forall in H; apply H end. apply in_or_app. right; left; auto.
  Qed.
  Lemma CInv_GuardR cs : CInv cs -> GuardR cs.
  Proof.
    intros [Hp Hs Hf Hl] l1 h l2 E Hh.
    destruct l2 as [|x l2'] eqn:E2.
    - exfalso. apply Hh. apply (Hl h l1). auto.
    - assert (Hne : l2 <> []) by (rewrite E2; discriminate).
      destruct (last_snoc_form l2 h Hne) as (t & Et). rewrite <- E2 in *. clear E2.
      exists (last l2 h). split; [rewrite Et at 2; apply in_or_app; right; left; auto|].
      split.
      + apply (Hl _ (l1 ++ h :: t)). rewrite E, Et at 1. rewrite <- app_assoc. reflexivity.
      + rewrite E in Hs. apply (SS_app_mid mle l1 h l2 Hs). rewrite Et at 2. apply in_or_app; right; left; auto.
  Qed.

  (* what the private merge does, in terms of the list L = tmp ++ centroids_ *)
  Lemma merge_into_spec (s : tq) tmp w : WInv QO s -> CInv (t_cents QO s) ->
    tmp <> [] -> wpos tmp -> GuardL tmp -> GuardR tmp -> w = sumw QO tmp ->
    let s' := merge_into QO s tmp w in
    let L := tmp ++ t_cents QO s in
    WInv QO s' /\ CInv (t_cents QO s') /\ t_buf QO s' = [] /\ t_k QO s' = t_k QO s /\
    exists f la t1 t2, t_cents QO s' = f :: t1 /\ t_cents QO s' = t2 ++ [la] /\ In f L /\ In la L /\
      (forall e, In e L -> mean f <= mean e /\ mean e <= mean la) /\
      t_min QO s' = nmin QO (t_min QO s) (mean f) /\ t_max QO s' = nmax QO (t_max QO s) (mean la) /\
      (forall lo hi, within lo hi L -> within lo hi (t_cents QO s')).
  Proof.
    intros HW HC Hne Hwp HGL HGR Hw s' L.
    assert (HLne : L <> []) by (unfold L; destruct tmp; [contradiction|discriminate]).
    assert (HLw : wpos L) by (apply Forall_app; split; auto; apply HC).
    assert (HLL : GuardL L) by (apply GuardL_app; auto using CInv_GuardL).
    assert (HLR : GuardR L) by (apply GuardR_app; auto using CInv_GuardR).
    assert (Hcw : (t_cw QO s + w)%Z = sumw QO L).
    { unfold L. rewrite sumw_app, Hw, HW. lia. }
    destruct (merge_into_eq QO s tmp w HLne) as (c0 & rest & Eb & Es). fold L in Eb.
    assert (Ecs : t_cents QO s' = merged (t_rev QO s) (t_k QO s) (sumw QO L) L).
    { unfold s'. rewrite Es. cbn [t_cents]. unfold merged. rewrite Eb, Hcw. reflexivity. }
    destruct (merged_spec (t_rev QO s) (t_k QO s) L HLne HLw HLL HLR) as (A & B & C & f & la & t1 & t2 & E1 & E2 & Lf & Lla & If & Ila & Hext & Hwithin).
    rewrite <- Ecs in *.
    split. { apply WInv_merge_into; auto. }
    split. { split; auto.
             - intros f' t' E'. rewrite E1 in E'. inversion E'; subst; auto.
             - intros la' t' E'. rewrite E2 in E'. apply app_inj_tail in E' as [_ <-]. auto. }
    split. { unfold s'. rewrite Es. reflexivity. }
    split. { unfold s'. rewrite Es. reflexivity. }
    exists f, la, t1, t2. repeat (split; auto).
    - assert (X : t_min QO s' = nmin QO (t_min QO s) (hd_mean QO (t_min QO s) (t_cents QO s'))).
      { unfold s'. rewrite Es. reflexivity. }
      rewrite X, E1. reflexivity.
    - assert (X : t_max QO s' = nmax QO (t_max QO s) (mean (last_c QO (t_cents QO s') (single QO (t_max QO s))))).
      { unfold s'. rewrite Es. reflexivity. }
      rewrite X, E2. unfold last_c. rewrite last_last. reflexivity.
  Qed.


  (* ---- the state invariant, with the ghost list of accepted values ---- *)
  Definition is_min (m : Q) (vs : list Q) : Prop := (exists v, In v vs /\ v == m) /\ forall v, In v vs -> m <= v.
  Definition is_max (M : Q) (vs : list Q) : Prop := (exists v, In v vs /\ v == M) /\ forall v, In v vs -> v <= M.
  Definition bounded (vs : list Q) : Prop := Forall (fun v => ninf <= v /\ v <= pinf) vs.

  Record Inv (s : tq) (vs : list Q) : Prop := {
    i_w : WInv QO s;
    i_c : CInv (t_cents QO s);
    i_in_c : within (t_min QO s) (t_max QO s) (t_cents QO s);
    i_in_b : Forall (fun v => t_min QO s <= v /\ v <= t_max QO s) (t_buf QO s);
    i_min_at : td_is_empty QO s = false ->
               (exists f t, t_cents QO s = f :: t /\ mean f == t_min QO s) \/ (exists v, In v (t_buf QO s) /\ v == t_min QO s);
    i_max_at : td_is_empty QO s = false ->
               (exists la t, t_cents QO s = t ++ [la] /\ mean la == t_max QO s) \/ (exists v, In v (t_buf QO s) /\ v == t_max QO s);
    i_empty : td_is_empty QO s = true <-> vs = [];
    i_init : vs = [] -> t_min QO s = pinf /\ t_max QO s = ninf;
    i_gmin : vs <> [] -> is_min (t_min QO s) vs;
    i_gmax : vs <> [] -> is_max (t_max QO s) vs;
    i_total : td_total QO s = nlen QO vs }.

  Lemma nmin_le a b : a <= b -> nmin QO a b = a.
  Proof. intro H. unfold nmin. apply ltb_ge in H. cbv zeta. rewrite H. reflexivity. Qed.
  Lemma nmax_ge a b : b <= a -> nmax QO a b = a.
  Proof. intro H. unfold nmax. apply ltb_ge in H. cbv zeta. rewrite H. reflexivity. Qed.

  Lemma is_empty_true (s : tq) : td_is_empty QO s = true <-> t_cents QO s = [] /\ t_buf QO s = [].
  Proof.
    unfold td_is_empty. destruct (t_cents QO s), (t_buf QO s); split; intros; try discriminate; auto; destruct H; discriminate.
  Qed.
  Lemma is_empty_cents (s : tq) c t : t_cents QO s = c :: t -> td_is_empty QO s = false.
  Proof. unfold td_is_empty. intros ->. reflexivity. Qed.
  Lemma is_empty_buf (s : tq) v t : t_buf QO s = v :: t -> td_is_empty QO s = false.
  Proof. unfold td_is_empty. intros ->. destruct (t_cents QO s); reflexivity. Qed.

  Lemma within_singles lo hi l : Forall (fun v => lo <= v /\ v <= hi) l -> within lo hi (map (single QO) l).
  Proof. induction 1; simpl; constructor; auto. Qed.

  Lemma Inv_compress s vs : Inv s vs -> Inv (td_compress QO s) vs.
  Proof.
    intros I. pose proof (blen_total_compress QO s) as HT. unfold td_compress in *. destruct (t_buf QO s) as [|b0 bt] eqn:Eb; auto.
    assert (Hne : map (single QO) (b0 :: bt) <> []) by discriminate.
    assert (Hw : blen QO s = sumw QO (map (single QO) (b0 :: bt))).
    { unfold blen. rewrite Eb, sumw_single. reflexivity. }
    destruct (merge_into_spec s _ _ (i_w _ _ I) (i_c _ _ I) Hne (wpos_singles _) (GuardL_singles _) (GuardR_singles _) Hw)
      as (W' & C' & B' & K' & f & la & t1 & t2 & E1 & E2 & If & Ila & Hext & Hmin & Hmax & Hwithin).
    set (s' := merge_into QO s (map (single QO) (b0 :: bt)) (blen QO s)) in *.
    set (L := map (single QO) (b0 :: bt) ++ t_cents QO s) in *.
    assert (HL : within (t_min QO s) (t_max QO s) L).
    { apply Forall_app. split; [apply within_singles; rewrite <- Eb; apply (i_in_b _ _ I)|apply (i_in_c _ _ I)]. }
    assert (Hmin' : t_min QO s' = t_min QO s).
    { rewrite Hmin. apply nmin_le. unfold within in HL. rewrite Forall_forall in HL. apply (HL f If). }
    assert (Hmax' : t_max QO s' = t_max QO s).
    { rewrite Hmax. apply nmax_ge. unfold within in HL. rewrite Forall_forall in HL. apply (HL la Ila). }
    assert (Hse : td_is_empty QO s = false) by (eapply is_empty_buf; eauto).
    assert (Hse' : td_is_empty QO s' = false) by (eapply is_empty_cents; eauto).
    split; auto.
    - rewrite Hmin', Hmax'. auto.
    - rewrite B'. constructor.
    - intros _. left. exists f, t1. split; auto. rewrite Hmin'.
      assert (X : exists e, In e L /\ mean e == t_min QO s).
      { destruct (i_min_at _ _ I Hse) as [(f0 & t0 & E0 & M0)|(v & Hv & Mv)].
        - exists f0. split; auto. unfold L. apply in_or_app. right. rewrite E0. left; auto.
        - exists (single QO v). split; auto. unfold L. apply in_or_app. left. rewrite <- Eb. apply in_map. auto. }
      destruct X as (e & He & Me). apply Qle_antisym.
      + rewrite <- Me. apply Hext; auto.
      + unfold within in HL. rewrite Forall_forall in HL. apply (HL f If).
    - intros _. left. exists la, t2. split; auto. rewrite Hmax'.
      assert (X : exists e, In e L /\ mean e == t_max QO s).
      { destruct (i_max_at _ _ I Hse) as [(f0 & t0 & E0 & M0)|(v & Hv & Mv)].
        - exists f0. split; auto. unfold L. apply in_or_app. right. rewrite E0. apply in_or_app. right; left; auto.
        - exists (single QO v). split; auto. unfold L. apply in_or_app. left. rewrite <- Eb. apply in_map. auto. }
      destruct X as (e & He & Me). apply Qle_antisym.
      + unfold within in HL. rewrite Forall_forall in HL. apply (HL la Ila).
      + rewrite <- Me. apply Hext; auto.
    - rewrite Hse'. rewrite <- (i_empty _ _ I), Hse. tauto.
    - rewrite Hmin', Hmax'. apply (i_init _ _ I).
    - rewrite Hmin'. apply (i_gmin _ _ I).
    - rewrite Hmax'. apply (i_gmax _ _ I).
    - rewrite HT. apply (i_total _ _ I).
  Qed.


  Definition pts (s : tq) : list cq := map (single QO) (t_buf QO s) ++ t_cents QO s.

  Lemma pts_within s vs : Inv s vs -> forall e, In e (pts s) -> t_min QO s <= mean e /\ mean e <= t_max QO s.
  Proof.
    intros I e He. apply in_app_or in He as [He|He].
    - apply in_map_iff in He as (v & <- & Hv). pose proof (i_in_b _ _ I) as X. rewrite Forall_forall in X. apply (X v Hv).
    - pose proof (i_in_c _ _ I) as X. unfold within in X. rewrite Forall_forall in X. apply (X e He).
  Qed.
  Lemma pts_min s vs : Inv s vs -> td_is_empty QO s = false -> exists e, In e (pts s) /\ mean e == t_min QO s.
  Proof.
    intros I Hse. destruct (i_min_at _ _ I Hse) as [(f0 & t0 & E0 & M0)|(v & Hv & Mv)].
    - exists f0. split; auto. apply in_or_app. right. rewrite E0. left; auto.
    - exists (single QO v). split; auto. apply in_or_app. left. apply in_map. auto.
  Qed.
  Lemma pts_max s vs : Inv s vs -> td_is_empty QO s = false -> exists e, In e (pts s) /\ mean e == t_max QO s.
  Proof.
    intros I Hse. destruct (i_max_at _ _ I Hse) as [(f0 & t0 & E0 & M0)|(v & Hv & Mv)].
    - exists f0. split; auto. apply in_or_app. right. rewrite E0. apply in_or_app. right; left; auto.
    - exists (single QO v). split; auto. apply in_or_app. left. apply in_map. auto.
  Qed.
  Lemma pts_nonempty s e : In e (pts s) -> td_is_empty QO s = false.
  Proof.
    intro H. destruct (td_is_empty QO s) eqn:E; auto. apply is_empty_true in E as [E1 E2].
    unfold pts in H. rewrite E1, E2 in H. destruct H.
  Qed.

  Lemma nmin_eq_r a b : b <= a -> nmin QO a b == b.
  Proof.
    intro H. unfold nmin. cbv zeta. destruct (nltb QO b a) eqn:E; [reflexivity|].
    apply ltb_ge in E. apply Qle_antisym; auto.
  Qed.
  Lemma nmax_eq_r a b : a <= b -> nmax QO a b == b.
  Proof.
    intro H. unfold nmax. cbv zeta. destruct (nltb QO a b) eqn:E; [reflexivity|].
    apply ltb_ge in E. apply Qle_antisym; auto.
  Qed.

  Lemma Inv_new k t : td_new QO k = Some t -> Inv t [].
  Proof.
    intro H. apply td_make_inv in H as (A & B & C & D & E & _).
    assert (He : td_is_empty QO t = true) by (unfold td_is_empty; rewrite A, C; reflexivity).
    split.
    - unfold WInv. rewrite A, B. reflexivity.
    - rewrite A. apply CInv_nil.
    - rewrite A. constructor.
    - rewrite C. constructor.
    - rewrite He. discriminate.
    - rewrite He. discriminate.
    - rewrite He. tauto.
    - intros _. auto.
    - congruence.
    - congruence.
    - unfold td_total, blen. rewrite B, C. reflexivity.
  Qed.

  Lemma is_min_ge_ninf m vs : bounded vs -> is_min m vs -> m <= pinf.
  Proof.
    intros B [(v & Hv & E) _]. unfold bounded in B. rewrite Forall_forall in B. rewrite <- E. apply (B v Hv).
  Qed.
  Lemma is_max_le_pinf m vs : bounded vs -> is_max m vs -> ninf <= m.
  Proof.
    intros B [(v & Hv & E) _]. unfold bounded in B. rewrite Forall_forall in B. rewrite <- E. apply (B v Hv).
  Qed.

  (* buffer_.push_back(value); min_ = std::min(min_, value); max_ = std::max(max_, value) *)
  Definition push (s : tq) (v : Q) : tq :=
    {| t_k := t_k QO s; t_rev := t_rev QO s; t_min := nmin QO (t_min QO s) v; t_max := nmax QO (t_max QO s) v;
       t_cents := t_cents QO s; t_cw := t_cw QO s; t_buf := t_buf QO s ++ [v] |}.

  Lemma Inv_push s vs v : Inv s vs -> ninf <= v -> v <= pinf -> Inv (push s v) (vs ++ [v]).
  Proof.
    intros I Hlo Hhi.
    destruct (nmin_spec (t_min QO s) v) as (Hm1 & Hm2 & Hm3).
    destruct (nmax_spec (t_max QO s) v) as (HM1 & HM2 & HM3).
    assert (Hne : td_is_empty QO (push s v) = false).
    { unfold td_is_empty, push. cbn [t_cents t_buf]. destruct (t_cents QO s); auto. destruct (t_buf QO s); reflexivity. }
    assert (Hvs : vs ++ [v] <> []) by (destruct vs; discriminate).
    assert (Hemp : td_is_empty QO s = true -> t_min QO s = pinf /\ t_max QO s = ninf).
    { intro E. apply (i_init _ _ I). apply (i_empty _ _ I). auto. }
    split; unfold push; cbn [t_cents t_cw t_buf t_min t_max]; auto.
    - apply (i_w _ _ I).
    - apply (i_c _ _ I).
    - eapply Forall_impl; [|apply (i_in_c _ _ I)]. cbv beta. intros c [A B]. split; [apply Qle_trans with (t_min QO s); auto|apply Qle_trans with (t_max QO s); auto].
    - apply Forall_app. split.
      + eapply Forall_impl; [|apply (i_in_b _ _ I)]. cbv beta. intros c [A B]. split; [apply Qle_trans with (t_min QO s); auto|apply Qle_trans with (t_max QO s); auto].
      + constructor; auto.
    - intros _. destruct (nltb QO v (t_min QO s)) eqn:E.
      + right. exists v. split; [apply in_or_app; right; left; auto|]. unfold nmin. cbv zeta. rewrite E. reflexivity.
      + assert (X : nmin QO (t_min QO s) v = t_min QO s) by (unfold nmin; cbv zeta; rewrite E; reflexivity).
        rewrite X. apply ltb_ge in E. destruct (td_is_empty QO s) eqn:Es.
        * right. exists v. split; [apply in_or_app; right; left; auto|].
          destruct (Hemp eq_refl) as [P _]. rewrite P in *. apply Qle_antisym; auto.
        * destruct (i_min_at _ _ I Es) as [L|(v0 & H0 & E0)]; [left; exact L|].
          right. exists v0. split; auto. apply in_or_app; auto.
    - intros _. destruct (nltb QO (t_max QO s) v) eqn:E.
      + right. exists v. split; [apply in_or_app; right; left; auto|]. unfold nmax. cbv zeta. rewrite E. reflexivity.
      + assert (X : nmax QO (t_max QO s) v = t_max QO s) by (unfold nmax; cbv zeta; rewrite E; reflexivity).
        rewrite X. apply ltb_ge in E. destruct (td_is_empty QO s) eqn:Es.
        * right. exists v. split; [apply in_or_app; right; left; auto|].
          destruct (Hemp eq_refl) as [_ P]. rewrite P in *. apply Qle_antisym; auto.
        * destruct (i_max_at _ _ I Es) as [L|(v0 & H0 & E0)]; [left; exact L|].
          right. exists v0. split; auto. apply in_or_app; auto.
    - fold (push s v). rewrite Hne. split; [discriminate|]. intro; contradiction.
    - intro; contradiction.
    - intros _. destruct vs as [|v1 vt] eqn:Ev.
      + destruct (i_init _ _ I eq_refl) as [P _]. rewrite P. simpl.
        assert (nmin QO pinf v == v) by (apply nmin_eq_r; auto).
        split; [exists v; split; [left; auto|symmetry; auto]|]. intros x [<-|[]]. rewrite H. apply Qle_refl.
      + assert (Hn : v1 :: vt <> []) by discriminate. destruct (i_gmin _ _ I Hn) as [(x & Hx & Ex) Hall]. split.
        * destruct Hm1 as [Hm1|Hm1].
          -- exists x. split; [apply in_or_app; auto|]. rewrite Hm1. auto.
          -- exists v. split; [apply in_or_app; right; left; auto|]. symmetry; auto.
        * intros y Hy. apply in_app_or in Hy as [Hy|[<-|[]]]; auto. eapply Qle_trans; [exact Hm2|]. auto.
    - intros _. destruct vs as [|v1 vt] eqn:Ev.
      + destruct (i_init _ _ I eq_refl) as [_ P]. rewrite P. simpl.
        assert (nmax QO ninf v == v) by (apply nmax_eq_r; auto).
        split; [exists v; split; [left; auto|symmetry; auto]|]. intros x [<-|[]]. rewrite H. apply Qle_refl.
      + assert (Hn : v1 :: vt <> []) by discriminate. destruct (i_gmax _ _ I Hn) as [(x & Hx & Ex) Hall]. split.
        * destruct HM1 as [HM1|HM1].
          -- exists x. split; [apply in_or_app; auto|]. rewrite HM1. auto.
          -- exists v. split; [apply in_or_app; right; left; auto|]. symmetry; auto.
        * intros y Hy. apply in_app_or in Hy as [Hy|[<-|[]]]; auto. eapply Qle_trans; [|exact HM2]. auto.
    - pose proof (i_total _ _ I) as HT. unfold td_total, blen, nlen in *. cbn [t_cw t_buf]. rewrite !app_length, !Nat2Z.inj_add. change (length [v]) with 1%nat. change (num QO) with Q in *. lia.
  Qed.

  Lemma td_update_push s v : td_update QO s v = push (if (blen QO s =? buf_cap (t_k QO s))%Z then td_compress QO s else s) v.
  Proof. reflexivity. Qed.

  Lemma Inv_update s vs v : Inv s vs -> ninf <= v -> v <= pinf -> Inv (td_update QO s v) (vs ++ [v]).
  Proof.
    intros I A B. rewrite td_update_push. apply Inv_push; auto.
    destruct (_ =? _)%Z; auto using Inv_compress.
  Qed.


  Lemma Inv_merge s vs o vo : Inv s vs -> Inv o vo -> bounded vo -> Inv (td_merge QO s o) (vs ++ vo).
  Proof.
    intros I J Bo. pose proof (total_merge QO s o (i_w _ _ J)) as HT. unfold td_merge in *. destruct (td_is_empty QO o) eqn:Eo.
    - apply (i_empty _ _ J) in Eo. subst vo. rewrite app_nil_r. auto.
    - set (tmp := map (single QO) (t_buf QO s) ++ map (single QO) (t_buf QO o) ++ t_cents QO o).
      assert (Hne : tmp <> []) by (apply merge_tmp_ne; auto).
      assert (Hwp : wpos tmp).
      { apply Forall_app. split; [apply wpos_singles|]. apply Forall_app. split; [apply wpos_singles|apply (i_c _ _ J)]. }
      assert (HGL : GuardL tmp).
      { apply GuardL_app; [apply GuardL_singles|]. apply GuardL_app; [apply GuardL_singles|apply CInv_GuardL, (i_c _ _ J)]. }
      assert (HGR : GuardR tmp).
      { apply GuardR_app; [apply GuardR_singles|]. apply GuardR_app; [apply GuardR_singles|apply CInv_GuardR, (i_c _ _ J)]. }
      assert (Hw : (blen QO s + td_total QO o)%Z = sumw QO tmp).
      { unfold tmp. rewrite !sumw_app, !sumw_single. unfold td_total, blen. rewrite (i_w _ _ J). lia. }
      destruct (merge_into_spec s tmp _ (i_w _ _ I) (i_c _ _ I) Hne Hwp HGL HGR Hw)
        as (W' & C' & B' & K' & f & la & t1 & t2 & E1 & E2 & If & Ila & Hext & Hmin & Hmax & Hwithin).
      set (s' := merge_into QO s tmp (blen QO s + td_total QO o)) in *.
      set (L := tmp ++ t_cents QO s) in *.
      assert (HL : forall e, In e L <-> In e (pts s) \/ In e (pts o)).
      { intro e. unfold L, tmp, pts. rewrite !in_app_iff. tauto. }
      assert (Hvo : vo <> []). { intro X. apply (i_empty _ _ J) in X. congruence. }
      pose proof (i_gmin _ _ J Hvo) as Gmo. pose proof (i_gmax _ _ J Hvo) as GMo.
      destruct (pts_min o vo J Eo) as (eo & Heo & Meo). destruct (pts_max o vo J Eo) as (Eo' & HEo & MEo).
      assert (F1 : mean f <= t_min QO o). { rewrite <- Meo. apply Hext. apply HL. auto. }
      assert (G1 : t_max QO o <= mean la). { rewrite <- MEo. apply Hext. apply HL. auto. }
      assert (F5 : mean f <= t_min QO s).
      { destruct (td_is_empty QO s) eqn:Es.
        - apply (i_empty _ _ I) in Es. destruct (i_init _ _ I Es) as [P _]. rewrite P.
          eapply Qle_trans; [exact F1|]. eapply is_min_ge_ninf; eauto.
        - destruct (pts_min s vs I Es) as (es & Hes & Mes). rewrite <- Mes. apply Hext. apply HL. auto. }
      assert (G5 : t_max QO s <= mean la).
      { destruct (td_is_empty QO s) eqn:Es.
        - apply (i_empty _ _ I) in Es. destruct (i_init _ _ I Es) as [_ P]. rewrite P.
          eapply Qle_trans; [|exact G1]. eapply is_max_le_pinf; eauto.
        - destruct (pts_max s vs I Es) as (es & Hes & Mes). rewrite <- Mes. apply Hext. apply HL. auto. }
      assert (Hmin' : t_min QO s' == mean f) by (rewrite Hmin; apply nmin_eq_r; auto).
      assert (Hmax' : t_max QO s' == mean la) by (rewrite Hmax; apply nmax_eq_r; auto).
      assert (Hse' : td_is_empty QO s' = false) by (eapply is_empty_cents; eauto).
      assert (Hall : vs ++ vo <> []) by (destruct vs; [simpl; auto|discriminate]).
      split; auto.
      + apply Hwithin. apply Forall_forall. intros e He. rewrite Hmin', Hmax'. apply Hext; auto.
      + rewrite B'. constructor.
      + intros _. left. exists f, t1. split; auto. symmetry; auto.
      + intros _. left. exists la, t2. split; auto. symmetry; auto.
      + rewrite Hse'. split; [discriminate|]. intro; contradiction.
      + intro; contradiction.
      + intros _. split.
        * apply HL in If as [If|If].
          -- pose proof (pts_nonempty s f If) as Es.
             assert (Hvs : vs <> []). { intro X. apply (i_empty _ _ I) in X. congruence. }
             destruct (i_gmin _ _ I Hvs) as [(x & Hx & Ex) _]. exists x. split; [apply in_or_app; auto|].
             rewrite Ex, Hmin'. apply Qle_antisym; auto. apply (pts_within s vs I f If).
          -- destruct Gmo as [(x & Hx & Ex) _]. exists x. split; [apply in_or_app; auto|].
             rewrite Ex, Hmin'. apply Qle_antisym; auto. apply (pts_within o vo J f If).
        * intros y Hy. rewrite Hmin'. apply in_app_or in Hy as [Hy|Hy].
          -- assert (Hvs : vs <> []) by (intro X; rewrite X in Hy; destruct Hy).
             eapply Qle_trans; [exact F5|]. apply (i_gmin _ _ I Hvs). auto.
          -- eapply Qle_trans; [exact F1|]. apply Gmo. auto.
      + intros _. split.
        * apply HL in Ila as [Ila|Ila].
          -- pose proof (pts_nonempty s la Ila) as Es.
             assert (Hvs : vs <> []). { intro X. apply (i_empty _ _ I) in X. congruence. }
             destruct (i_gmax _ _ I Hvs) as [(x & Hx & Ex) _]. exists x. split; [apply in_or_app; auto|].
             rewrite Ex, Hmax'. apply Qle_antisym; auto. apply (pts_within s vs I la Ila).
          -- destruct GMo as [(x & Hx & Ex) _]. exists x. split; [apply in_or_app; auto|].
             rewrite Ex, Hmax'. apply Qle_antisym; auto. apply (pts_within o vo J la Ila).
        * intros y Hy. rewrite Hmax'. apply in_app_or in Hy as [Hy|Hy].
          -- assert (Hvs : vs <> []) by (intro X; rewrite X in Hy; destruct Hy).
             eapply Qle_trans; [|exact G5]. apply (i_gmax _ _ I Hvs). auto.
          -- eapply Qle_trans; [|exact G1]. apply GMo. auto.
      + unfold s', tmp. rewrite HT, (i_total _ _ I), (i_total _ _ J). unfold nlen. rewrite app_length. change (num QO) with Q in *. lia.
  Qed.

  Lemma is_min_single m v : is_min m [v] -> m == v.
  Proof. intros [(x & [<-|[]] & E) _]. symmetry; auto. Qed.
  Lemma is_max_single m v : is_max m [v] -> m == v.
  Proof. intros [(x & [<-|[]] & E) _]. symmetry; auto. Qed.

  Lemma Inv_deser s vs t : Inv s vs -> td_deser QO s = Some t -> Inv t vs.
  Proof.
    intros I H. unfold td_deser in H. destruct (td_is_empty QO s) eqn:Es.
    - apply (i_empty _ _ I) in Es. subst vs. eapply Inv_new; eauto.
    - assert (Hvs : vs <> []). { intro X. apply (i_empty _ _ I) in X. congruence. }
      destruct (td_total QO s =? 1)%Z eqn:E1.
      + apply td_make_inv in H as (A & B & C & D & E & _).
        assert (Hl : length vs = 1%nat).
        { apply Z.eqb_eq in E1. rewrite (i_total _ _ I) in E1. unfold nlen in E1. change (num QO) with Q in *. lia. }
        destruct vs as [|v [|v2 vt]]; try discriminate.
        pose proof (is_min_single _ _ (i_gmin _ _ I Hvs)) as Mv.
        assert (Het : td_is_empty QO t = false) by (eapply is_empty_cents; eauto).
        split.
        * unfold WInv. rewrite A, B. reflexivity.
        * rewrite A. split; [repeat constructor; simpl; lia|repeat constructor| |].
          -- intros f t0 X. inversion X; subst. reflexivity.
          -- intros la t0 X. destruct t0 as [|? [|? ?]]; inversion X; subst. reflexivity.
        * rewrite A, D, E. repeat constructor; apply Qle_refl.
        * rewrite C. constructor.
        * intros _. left. rewrite A, D. exists (single QO (t_min QO s)), []. split; reflexivity.
        * intros _. left. rewrite A, E. exists (single QO (t_min QO s)), []. split; reflexivity.
        * rewrite Het. split; [discriminate|]. intro; contradiction.
        * intro; contradiction.
        * rewrite D. apply (i_gmin _ _ I).
        * intros _. rewrite E. split; [exists v; split; [left; auto|symmetry; auto]|]. intros x [<-|[]]. rewrite Mv. apply Qle_refl.
        * unfold td_total, blen. rewrite B, C. reflexivity.
      + apply td_make_inv in H as (A & B & C & D & E & _).
        assert (Het : td_is_empty QO t = td_is_empty QO s) by (unfold td_is_empty; rewrite A, C; reflexivity).
        split; try rewrite A; try rewrite C; try rewrite D; try rewrite E; try rewrite Het; try apply I.
        * unfold WInv. rewrite A, B. apply sum_w_sumw.
        * rewrite <- (i_total _ _ I). unfold td_total, blen. rewrite B, C, sum_w_sumw, (i_w _ _ I). reflexivity.
  Qed.


  Lemma rank_state (s : tq) v : fst (td_rank QO s v) = s \/ fst (td_rank QO s v) = td_compress QO s.
  Proof.
    unfold td_rank.
    repeat match goal with |- context [if ?b then _ else _] => destruct b; cbn [fst]; auto end.
  Qed.
  Lemma quantile_state (s : tq) q : fst (td_quantile QO s q) = s \/ fst (td_quantile QO s q) = td_compress QO s.
  Proof.
    unfold td_quantile.
    repeat match goal with |- context [if ?b then _ else _] => destruct b; cbn [fst]; auto end.
  Qed.
  Lemma Inv_rank s vs v : Inv s vs -> Inv (fst (td_rank QO s v)) vs.
  Proof. intro I. destruct (rank_state s v) as [-> | ->]; auto using Inv_compress. Qed.

  (* the invariant holds after every history whose accepted values are bounded by the stand-ins for the infinities *)
  Theorem reach_inv s vs : reachable QO s vs -> bounded vs -> Inv s vs.
  Proof.
    induction 1 as [k t Hn|s vs v H IH|s vs o vo Hs IHs Ho IHo|s vs H IH|s vs v H IH
                   |s vs q H IH|s vs l H IH|s vs l H IH|s vs wb H IH|s vs t H IH Hd]; intro B.
    - eapply Inv_new; eauto.
    - change (nisnan QO v) with false in *. cbv iota in *. apply Forall_app in B as [B1 B2]. inversion B2; subst.
      apply Inv_update; auto; tauto.
    - apply Forall_app in B as [B1 B2]. apply Inv_merge; auto.
    - apply Inv_compress; auto.
    - apply Inv_rank; auto.
    - destruct (quantile_state s q) as [-> | ->]; auto using Inv_compress.
    - apply (cdf_inv QO (fun s => Inv s vs)); auto. intros; apply Inv_rank; auto.
    - apply (pmf_inv QO (fun s => Inv s vs)); auto. intros; apply Inv_rank; auto.
    - unfold td_ser_src. destruct wb; auto using Inv_compress.
    - eapply Inv_deser; eauto.
  Qed.

  (* a compressed, non-empty state as get_rank / get_quantile see it *)
  Record Good (mn mx : Q) (cs : list cq) (cw : Z) : Prop := {
    g_c : CInv cs;
    g_w : cw = sumw QO cs;
    g_first : exists f t, cs = f :: t /\ mean f == mn;
    g_last : exists la t, cs = t ++ [la] /\ mean la == mx }.

  Lemma Inv_Good s vs : Inv s vs -> t_buf QO s = [] -> td_is_empty QO s = false ->
    Good (t_min QO s) (t_max QO s) (t_cents QO s) (t_cw QO s).
  Proof.
    intros I Hb Hne. split.
    - apply (i_c _ _ I).
    - apply (i_w _ _ I).
    - destruct (i_min_at _ _ I Hne) as [X|(v & Hv & _)]; auto. rewrite Hb in Hv. destruct Hv.
    - destruct (i_max_at _ _ I Hne) as [X|(v & Hv & _)]; auto. rewrite Hb in Hv. destruct Hv.
  Qed.

  Lemma compress_buf (s : tq) : t_buf QO (td_compress QO s) = [].
  Proof.
    unfold td_compress. destruct (t_buf QO s) eqn:E; auto. apply merge_into_buf. discriminate.
  Qed.
  Lemma compress_nonempty (s : tq) vs : Inv s vs -> td_is_empty QO s = false -> td_is_empty QO (td_compress QO s) = false.
  Proof.
    intros I H. pose proof (Inv_compress s vs I) as I'.
    destruct (td_is_empty QO (td_compress QO s)) eqn:E; auto.
    apply (i_empty _ _ I') in E. apply (i_empty _ _ I) in E. congruence.
  Qed.
  Lemma compress_Good s vs : Inv s vs -> td_is_empty QO s = false ->
    let s' := td_compress QO s in Good (t_min QO s') (t_max QO s') (t_cents QO s') (t_cw QO s').
  Proof.
    intros I H s'. apply (Inv_Good s' vs); unfold s'; auto using Inv_compress, compress_buf. eapply compress_nonempty; eauto.
  Qed.

End Exact.
