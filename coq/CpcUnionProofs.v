(* CpcUnionProofs.v — the CPC union: result lg_k = min over the union and the non-empty inputs, result matrix =
   OR over the inputs of their matrices folded to that many rows; independent of the order of the inputs.
   Partial correctness (whenever the model returns [Some]). *)
From Coq Require Import ZArith NArith List Bool Lia Permutation.
From DS Require OpenAddr.
From DS Require Import Word Murmur3 RunnerLib CpcDefs CpcTableProofs CpcBits CpcSketchInv CpcProofs.
Import ListNotations.
Local Open Scope N_scope.

(** ** folding a pair to 2^L rows *)
Lemma fold_rc_rcp L r c : c < 64 -> fold_rc L (rcp r c) = rcp (r mod 2 ^ L) c.
Proof.
  intros Hc. unfold fold_rc, rcp. apply N.bits_inj. intros j.
  rewrite N.land_spec, !N.lor_spec. change 63 with (2 ^ 6 - 1). rewrite ones_bit.
  destruct (N.ltb_spec j 6).
  - rewrite !N.shiftl_spec_low by auto. cbn [orb]. apply andb_true_r.
  - rewrite !N.shiftl_spec_high' by auto. rewrite (col_bits_high c j) by auto. rewrite !orb_false_r.
    rewrite ones_bit. destruct (N.ltb_spec (j - 6) L).
    + rewrite N.mod_pow2_bits_low by auto. apply andb_true_r.
    + rewrite N.mod_pow2_bits_high by auto. apply andb_false_r.
Qed.

Lemma fold_rc_id L x : x < 2 ^ (6 + L) -> fold_rc L x = x.
Proof.
  intros H. rewrite (rcp_decode x) at 1. rewrite fold_rc_rcp by apply land63_lt.
  rewrite N.mod_small by (now apply row_lt). symmetry. apply rcp_decode.
Qed.

Lemma fold_rc_lt L x : fold_rc L x < 2 ^ (6 + L).
Proof.
  rewrite (rcp_decode x). rewrite fold_rc_rcp by apply land63_lt. apply rcp_lt; [|apply land63_lt].
  apply N.mod_lt. apply N.pow_nonzero. lia.
Qed.

Lemma fold_rc_ne_empty L x : x < 2 ^ 32 -> x <> EMPTY -> fold_rc L x <> EMPTY.
Proof.
  intros Hx Hne E. rewrite (rcp_decode x) in E. rewrite fold_rc_rcp in E by apply land63_lt.
  assert (Hc : N.land x 63 = 63).
  { rewrite <- (rcp_col (N.shiftr x 6 mod 2 ^ L) (N.land x 63)) by apply land63_lt. rewrite E. reflexivity. }
  assert (Hr : N.shiftr x 6 mod 2 ^ L = N.shiftr EMPTY 6).
  { rewrite <- (rcp_row (N.shiftr x 6 mod 2 ^ L) (N.land x 63)) by apply land63_lt. now rewrite E. }
  (* row of x < 2^26 and its residue is 2^26 - 1, so the row is 2^26 - 1 *)
  assert (Hrow : N.shiftr x 6 < 2 ^ 26) by (apply (row_lt x 26); exact Hx).
  change (N.shiftr EMPTY 6) with (2 ^ 26 - 1) in Hr.
  assert (N.shiftr x 6 = 2 ^ 26 - 1).
  { pose proof (N.mod_le (N.shiftr x 6) (2 ^ L)) as Hle. specialize (Hle ltac:(apply N.pow_nonzero; lia)). lia. }
  apply Hne. rewrite (rcp_decode x), H, Hc. reflexivity.
Qed.

(** ** invariants only depend on the set of offered coupons *)
Lemma has_ext h h' r c : (forall x, In x h <-> In x h') -> has h r c = has h' r c.
Proof. intros H. unfold has. apply mem_iff. apply H. Qed.

Lemma SInv_ext l s h h' : (forall x, In x h <-> In x h') -> SInv l s h -> SInv l s h'.
Proof.
  intros He [C Cn]. split.
  - destruct C as [c1 c2 c3 c4 c5 c6 c7 c8 c9 c10]. constructor; auto.
    + intros r c Hr Hc. rewrite <- (has_ext h h') by auto. auto.
    + intros r c Hr Hc. rewrite <- (has_ext h h') by auto. auto.
    + intros x Hx. apply c10. now apply He.
  - destruct Cn as [n1 n2 n3 n4]. constructor; auto. rewrite n1. f_equal. now apply distinct_len_ext.
Qed.

(** ** a bit matrix representing a coupon set in its first 2^L rows *)
Record MRep (L : N) (bm : list N) (H : list N) : Prop := {
  m_len : (N.to_nat (2 ^ L) <= length bm)%nat;
  m_bits : forall r c, r < 2 ^ L -> c < 64 -> bit bm r c = mem (rcp r c) H;
  m_high : forall r c, r < 2 ^ L -> 64 <= c -> bit bm r c = false;
  m_valid : valid L H }.

(* OR-ing rows: bit_matrix[(i+j) & mask] |= src[j] *)
Fixpoint hit (mask : N) (src : list N) (i r c : N) : bool :=
  match src with
  | [] => false
  | w :: t => ((N.land i mask =? r) && N.testbit w c) || hit mask t (i + 1) r c
  end.

Lemma or_rows_length mask src : forall bm i, length (or_rows bm mask src i) = length bm.
Proof. induction src as [|w t IH]; intros bm i; simpl; auto. rewrite IH. apply updN_length. Qed.

Lemma or_rows_bit mask src : forall bm i r c,
  (forall j, (N.to_nat (N.land j mask) < length bm)%nat) ->
  bit (or_rows bm mask src i) r c = bit bm r c || hit mask src i r c.
Proof.
  induction src as [|w t IH]; intros bm i r c Hm; simpl; [now rewrite orb_false_r|].
  rewrite IH by (intros j; rewrite updN_length; apply Hm).
  rewrite orb_assoc. f_equal. unfold bit.
  destruct (N.eqb_spec (N.land i mask) r) as [<-|Hn].
  - rewrite nthN_updN_eq by apply Hm. rewrite N.lor_spec. reflexivity.
  - rewrite nthN_updN_neq by auto. simpl. now rewrite orb_false_r.
Qed.

Lemma hit_spec mask src : forall i r c,
  hit mask src i r c = true <->
  exists j, (j < length src)%nat /\ N.land (i + N.of_nat j) mask = r /\ N.testbit (nth j src 0) c = true.
Proof.
  induction src as [|w t IH]; intros i r c; simpl.
  - split; [discriminate|]. intros (j & Hj & _). lia.
  - rewrite orb_true_iff, andb_true_iff, N.eqb_eq, IH. split.
    + intros [[H1 H2]|(j & Hj & H1 & H2)].
      * exists 0%nat. rewrite N.add_0_r. split; [lia|auto].
      * exists (S j). split; [lia|]. split; auto. rewrite <- H1. f_equal. lia.
    + intros ([|j] & Hj & H1 & H2).
      * left. rewrite N.add_0_r in H1. auto.
      * right. exists j. split; [lia|]. split; auto. rewrite <- H1. f_equal. lia.
Qed.

Lemma land_mask_mod x L : N.land x (2 ^ L - 1) = x mod 2 ^ L.
Proof. replace (2 ^ L - 1) with (N.ones L) by (rewrite N.ones_equiv; lia). apply N.land_ones. Qed.

Lemma mask_lt x L : N.land x (2 ^ L - 1) < 2 ^ L.
Proof. rewrite land_mask_mod. apply N.mod_lt. apply N.pow_nonzero. lia. Qed.

(* or_table_into_matrix *)
Lemma or_slot_length mask m v : length (or_slot mask m v) = length m.
Proof. unfold or_slot. destruct (v =? EMPTY); auto. apply updN_length. Qed.

Lemma fold_or_slot_length mask slots : forall m, length (fold_left (or_slot mask) slots m) = length m.
Proof. induction slots as [|v t IH]; intros m; simpl; auto. rewrite IH. apply or_slot_length. Qed.

Fixpoint hit_items (mask : N) (items : list N) (r c : N) : bool :=
  match items with
  | [] => false
  | v :: t => ((N.land (N.shiftr v 6) mask =? r) && (N.land v 63 =? c)) || hit_items mask t r c
  end.

Lemma fold_or_slot_bit mask slots : forall m r c,
  (forall j, (N.to_nat (N.land j mask) < length m)%nat) ->
  bit (fold_left (or_slot mask) slots m) r c = bit m r c || hit_items mask (filt slots) r c.
Proof.
  induction slots as [|v t IH]; intros m r c Hm; simpl; [now rewrite orb_false_r|].
  rewrite IH by (intros j; rewrite or_slot_length; apply Hm).
  unfold or_slot. change (filt (v :: t)) with (if negb (v =? EMPTY) then v :: filt t else filt t).
  destruct (N.eqb_spec v EMPTY) as [E|E]; cbn [negb hit_items]; auto.
  rewrite orb_assoc. f_equal. unfold bit.
  destruct (N.eqb_spec (N.land (N.shiftr v 6) mask) r) as [<-|Hn].
  - rewrite nthN_updN_eq by apply Hm. rewrite N.lor_spec, bit1_spec. reflexivity.
  - rewrite nthN_updN_neq by auto. simpl. now rewrite orb_false_r.
Qed.

Lemma hit_items_spec mask items r c :
  hit_items mask items r c = true <->
  exists v, In v items /\ N.land (N.shiftr v 6) mask = r /\ N.land v 63 = c.
Proof.
  induction items as [|v t IH]; simpl.
  - split; [discriminate|]. intros (v & [] & _).
  - rewrite orb_true_iff, andb_true_iff, !N.eqb_eq, IH. split.
    + intros [[H1 H2]|(x & Hx & H1 & H2)]; [exists v|exists x]; auto.
    + intros (x & [<-|Hx] & H1 & H2); [left; auto|right; exists x; auto].
Qed.

(* membership in a folded history *)
Lemma mem_folded L ls hs r c : valid ls hs -> r < 2 ^ L -> c < 64 ->
  (mem (rcp r c) (map (fold_rc L) hs) = true <->
   exists r', r' < 2 ^ ls /\ r' mod 2 ^ L = r /\ has hs r' c = true).
Proof.
  intros Hv Hr Hc. rewrite mem_In, in_map_iff. split.
  - intros (x & Hx & Hin). destruct (Hv x Hin) as [Hlt _].
    destruct (rc_parts ls x Hlt) as (Hdec & Hrow & Hcol).
    rewrite Hdec, fold_rc_rcp in Hx by auto. apply rcp_inj in Hx; auto. destruct Hx as [Hx1 Hx2].
    exists (N.shiftr x 6). split; auto. split; auto. unfold has. rewrite <- Hx2, <- Hdec. now apply mem_In.
  - intros (r' & Hr' & Hm & Hh). exists (rcp r' c). split.
    + rewrite fold_rc_rcp by auto. now rewrite Hm.
    + unfold has in Hh. now apply mem_In.
Qed.

Lemma mem_app x a b : mem x (a ++ b) = mem x a || mem x b.
Proof. unfold mem. apply existsb_app. Qed.

Lemma valid_folded L ls hs : valid ls hs -> ls <= 26 -> valid L (map (fold_rc L) hs).
Proof.
  intros Hv Hl x Hx. apply in_map_iff in Hx. destruct Hx as (y & <- & Hy). destruct (Hv y Hy) as [H1 H2].
  split; [apply fold_rc_lt|]. apply fold_rc_ne_empty; auto.
  apply N.lt_le_trans with (2 ^ (6 + ls)); auto. apply N.pow_le_mono_r; lia.
Qed.

Lemma valid_app L a b : valid L a -> valid L b -> valid L (a ++ b).
Proof. intros Ha Hb x Hx. apply in_app_or in Hx. destruct Hx; auto. Qed.

(** ** matrix operations of the union on [MRep] *)
Lemma MRep_idx L bm H : MRep L bm H -> forall j, (N.to_nat (N.land j (2 ^ L - 1)) < length bm)%nat.
Proof. intros M j. pose proof (m_len _ _ _ M). pose proof (mask_lt j L). lia. Qed.

Lemma nth_firstn_lt {A} (l : list A) n j d : (j < n)%nat -> nth j (firstn n l) d = nth j l d.
Proof.
  revert n j. induction l as [|x t IH]; intros [|n] [|j] H; simpl; auto; try lia. apply IH. lia.
Qed.

Lemma bool_eq_iff (a b : bool) : (a = true <-> b = true) -> a = b.
Proof. destruct a, b; intros [H1 H2]; auto; try (symmetry; auto); auto. Qed.

Lemma MRep_or_matrix L bm H ls msrc hs bm' :
  MRep L bm H -> MRep ls msrc hs -> ls <= 26 ->
  or_matrix_into_matrix bm L msrc ls = Some bm' ->
  MRep L bm' (map (fold_rc L) hs ++ H).
Proof.
  intros M Ms Hls Ho. unfold or_matrix_into_matrix in Ho. destruct (ls <? L); [discriminate|].
  inversion Ho; subst bm'; clear Ho.
  set (src := firstn (N.to_nat (2 ^ ls)) msrc).
  assert (Hlsrc : length src = N.to_nat (2 ^ ls)).
  { unfold src. rewrite firstn_length. pose proof (m_len _ _ _ Ms). lia. }
  assert (Hhit : forall r c, r < 2 ^ L ->
            (hit (2 ^ L - 1) src 0 r c = true <->
             exists r', r' < 2 ^ ls /\ r' mod 2 ^ L = r /\ bit msrc r' c = true)).
  { intros r c Hr. rewrite hit_spec. split.
    - intros (j & Hj & H1 & H2). exists (N.of_nat j). rewrite N.add_0_l, land_mask_mod in H1.
      split; [lia|]. split; auto. unfold bit, nthN. rewrite Nat2N.id. unfold src in H2.
      rewrite nth_firstn_lt in H2 by lia. exact H2.
    - intros (r' & Hr' & H1 & H2). exists (N.to_nat r'). split; [lia|]. rewrite N2Nat.id, N.add_0_l, land_mask_mod.
      split; auto. unfold src. rewrite nth_firstn_lt by lia. exact H2. }
  constructor.
  - rewrite or_rows_length. apply (m_len _ _ _ M).
  - intros r c Hr Hc. rewrite or_rows_bit by apply (MRep_idx L bm H M).
    rewrite (m_bits _ _ _ M) by auto. rewrite mem_app, orb_comm. f_equal.
    apply bool_eq_iff. rewrite Hhit by auto. rewrite (mem_folded L ls hs r c (m_valid _ _ _ Ms) Hr Hc).
    split; intros (r' & H1 & H2 & H3); exists r'; split; auto; split; auto.
    + unfold has. rewrite <- (m_bits _ _ _ Ms) by auto. exact H3.
    + rewrite (m_bits _ _ _ Ms) by auto. exact H3.
  - intros r c Hr Hc. rewrite or_rows_bit by apply (MRep_idx L bm H M).
    rewrite (m_high _ _ _ M) by auto. simpl.
    destruct (hit (2 ^ L - 1) src 0 r c) eqn:E; auto. apply Hhit in E; auto.
    destruct E as (r' & H1 & _ & H3). rewrite (m_high _ _ _ Ms) in H3 by auto. discriminate.
  - apply valid_app; [|apply (m_valid _ _ _ M)]. apply (valid_folded L ls); auto. apply (m_valid _ _ _ Ms).
Qed.

Lemma MRep_zero L n : (N.to_nat (2 ^ L) <= n)%nat -> MRep L (repeat 0 n) [].
Proof.
  intros Hn.
  assert (Hz : forall r c, bit (repeat 0 n) r c = false).
  { intros r c. unfold bit. destruct (Nat.lt_ge_cases (N.to_nat r) n).
    - rewrite nthN_repeat by auto. apply N.bits_0.
    - rewrite nthN_oob by (rewrite repeat_length; lia). apply N.bits_0. }
  constructor; auto.
  - now rewrite repeat_length.
  - intros x [].
Qed.

Lemma MRep_ext L bm H H' : (forall x, In x H <-> In x H') -> MRep L bm H -> MRep L bm H'.
Proof.
  intros He [A B C D]. constructor; auto.
  - intros r c Hr Hc. rewrite B by auto. apply mem_iff. apply He.
  - intros x Hx. apply D. now apply He.
Qed.

Lemma MRep_of_sketch l s h m : SInv l s h -> build_bit_matrix s = Some m -> MRep l m h.
Proof.
  intros I Hb. destruct (bbm_bits_inv l s h m I Hb) as (A & B & C). constructor.
  - lia.
  - intros r c Hr Hc. rewrite B by auto. reflexivity.
  - intros r c _ Hc. now apply C.
  - apply I.
Qed.

Lemma MRep_empty_weaken L la m : MRep la m [] -> L <= la -> MRep L m [].
Proof.
  intros [A B C D] Hl.
  assert (Hp : 2 ^ L <= 2 ^ la) by (apply N.pow_le_mono_r; lia).
  constructor.
  - lia.
  - intros r c Hr Hc. rewrite B by lia. reflexivity.
  - intros r c Hr Hc. apply C; lia.
  - intros x [].
Qed.

(* or_table_into_matrix *)
Lemma fold_of_item L v : fold_rc L v = rcp (N.shiftr v 6 mod 2 ^ L) (N.land v 63).
Proof. rewrite (rcp_decode v) at 1. apply fold_rc_rcp. apply land63_lt. Qed.

Lemma hit_items_folded L items r c : c < 64 ->
  (hit_items (2 ^ L - 1) items r c = true <-> mem (rcp r c) (map (fold_rc L) items) = true).
Proof.
  intros Hc. rewrite hit_items_spec, mem_In, in_map_iff. split.
  - intros (v & Hv & H1 & H2). exists v. split; auto. rewrite fold_of_item. rewrite land_mask_mod in H1. now rewrite H1, H2.
  - intros (v & Hf & Hv). exists v. split; auto. rewrite fold_of_item in Hf.
    apply rcp_inj in Hf; auto; [|apply land63_lt]. rewrite land_mask_mod. tauto.
Qed.

Lemma MRep_or_table L bm H t ls :
  MRep L bm H -> (forall v, In v (t_items t) -> v < 2 ^ (6 + ls)) -> ls <= 26 ->
  MRep L (or_table_into_matrix bm L t) (map (fold_rc L) (t_items t) ++ H).
Proof.
  intros M Hit Hls. unfold or_table_into_matrix.
  assert (Hv : valid ls (t_items t)).
  { intros v Hv. split; auto. now apply (t_items_not_empty t). }
  constructor.
  - rewrite fold_or_slot_length. apply (m_len _ _ _ M).
  - intros r c Hr Hc. rewrite fold_or_slot_bit by apply (MRep_idx L bm H M).
    rewrite (m_bits _ _ _ M) by auto. rewrite mem_app, orb_comm. f_equal.
    apply bool_eq_iff. apply hit_items_folded. exact Hc.
  - intros r c Hr Hc. rewrite fold_or_slot_bit by apply (MRep_idx L bm H M).
    rewrite (m_high _ _ _ M) by auto. simpl.
    destruct (hit_items (2 ^ L - 1) (filt (t_slots t)) r c) eqn:E; auto.
    apply hit_items_spec in E. destruct E as (v & _ & _ & E). pose proof (land63_lt v). lia.
  - apply valid_app; [|apply (m_valid _ _ _ M)]. apply (valid_folded L ls); auto.
Qed.

(** ** facts about a source sketch *)
Lemma sparse_items_hist ls s hs : SInv ls s hs -> window s = [] ->
  forall x, In x (t_items (table s)) <-> In x hs.
Proof.
  intros [C Cn] Hw x. split; intros Hx.
  - destruct (c_items _ _ _ C x Hx) as [Hlt _]. destruct (rc_parts ls x Hlt) as (Hdec & Hrow & Hcol).
    apply mem_In. rewrite <- has_rc. rewrite (c_bits _ _ _ C) by auto. rewrite (bitF_sparse ls s hs) by auto.
    rewrite <- Hdec. now apply mem_In.
  - destruct (c_valid _ _ _ C x Hx) as [Hlt _]. destruct (rc_parts ls x Hlt) as (Hdec & Hrow & Hcol).
    apply mem_In in Hx. rewrite <- has_rc in Hx. rewrite (c_bits _ _ _ C) in Hx by auto.
    rewrite (bitF_sparse ls s hs) in Hx by auto. rewrite <- Hdec in Hx. now apply mem_In.
Qed.

Lemma dco_lt27 l c : 8 * c < 27 * 2 ^ l -> determine_correct_offset l c = 0.
Proof.
  intros H. pose proof (pow2_pos l). destruct (N.lt_ge_cases (8 * c) (19 * 2 ^ l)); [now apply dco_small|].
  assert (E : (8 * c - 19 * 2 ^ l) / (8 * 2 ^ l) = 0) by (apply N.div_small; lia).
  rewrite dco_val; auto. rewrite E. lia.
Qed.

Lemma flavor_sparse_window ls s hs : SInv ls s hs -> determine_flavor ls (ncoup s) = FL_SPARSE -> window s = [].
Proof.
  intros [C Cn] Hf. unfold determine_flavor in Hf. destruct (ncoup s =? 0); [discriminate|].
  destruct (N.ltb_spec (32 * ncoup s) (3 * 2 ^ ls)) as [Hlt|].
  - destruct (window s) eqn:E; auto. assert (Hd : window s <> []) by congruence. apply (n_dense _ _ _ Cn) in Hd. lia.
  - destruct (2 * ncoup s <? 2 ^ ls); [discriminate|]. destruct (8 * ncoup s <? 27 * 2 ^ ls); discriminate.
Qed.

Lemma flavor_dense_window ls s hs : SInv ls s hs -> is_dense_flavor (determine_flavor ls (ncoup s)) = true ->
  window s <> [].
Proof.
  intros [C Cn] Hf E. apply (n_sparse _ _ _ Cn) in E. unfold determine_flavor in Hf.
  destruct (ncoup s =? 0); [discriminate|]. destruct (N.ltb_spec (32 * ncoup s) (3 * 2 ^ ls)); [discriminate|lia].
Qed.

Lemma flavor_mid_offset ls s hs : SInv ls s hs ->
  determine_flavor ls (ncoup s) = FL_HYBRID \/ determine_flavor ls (ncoup s) = FL_PINNED -> woff s = 0.
Proof.
  intros [C Cn] Hf. rewrite (n_off _ _ _ Cn). apply dco_lt27. unfold determine_flavor in Hf.
  pose proof (pow2_pos ls).
  destruct (ncoup s =? 0); [destruct Hf; discriminate|].
  destruct (32 * ncoup s <? 3 * 2 ^ ls); [destruct Hf; discriminate|].
  destruct (N.ltb_spec (2 * ncoup s) (2 ^ ls)); [lia|].
  destruct (N.ltb_spec (8 * ncoup s) (27 * 2 ^ ls)); [lia|destruct Hf; discriminate].
Qed.

Lemma nth_map_shift (win : list N) off j : nth j (map (fun b => N.shiftl b off) win) 0 = N.shiftl (nth j win 0) off.
Proof. rewrite <- (N.shiftl_0_l off) at 1. apply (map_nth (fun b => N.shiftl b off)). Qed.

(* case C: HYBRID / PINNED source (offset 0): window and table OR-ed into the matrix *)
Lemma MRep_or_dense0 L bm H ls s hs bm1 :
  MRep L bm H -> SInv ls s hs -> window s <> [] -> woff s = 0 -> ls <= 26 ->
  or_window_into_matrix bm L (window s) (woff s) ls = Some bm1 ->
  MRep L (or_table_into_matrix bm1 L (table s)) (map (fold_rc L) hs ++ H).
Proof.
  intros M I Hw Ho Hls Hor. destruct I as [C Cn].
  assert (Hlenw : length (window s) = N.to_nat (2 ^ ls)).
  { destruct (c_win _ _ _ C) as [[? _]|?]; [contradiction|auto]. }
  unfold or_window_into_matrix in Hor. destruct (ls <? L); [discriminate|]. inversion Hor; subst bm1; clear Hor.
  rewrite Ho. set (srcW := map (fun b => N.shiftl b 0) (firstn (N.to_nat (2 ^ ls)) (window s))).
  assert (HlW : length srcW = N.to_nat (2 ^ ls)) by (unfold srcW; rewrite map_length, firstn_length; lia).
  assert (HnW : forall j, (j < N.to_nat (2 ^ ls))%nat -> nth j srcW 0 = nthN (window s) (N.of_nat j) 0).
  { intros j Hj. unfold srcW. rewrite nth_map_shift, N.shiftl_0_r, nth_firstn_lt by auto. unfold nthN. now rewrite Nat2N.id. }
  assert (HbF : forall r' c, r' < 2 ^ ls -> c < 64 ->
            has hs r' c = if c <? 8 then N.testbit (nthN (window s) r' 0) c else mem (rcp r' c) (t_items (table s))).
  { intros r' c Hr Hc. rewrite (c_bits _ _ _ C) by auto. unfold bitF. rewrite in_win_dense by auto. rewrite Ho.
    destruct (N.leb_spec 0 c); [|lia]. simpl. destruct (N.ltb_spec c 8).
    - now rewrite N.sub_0_r.
    - destruct (N.ltb_spec c 0); [lia|]. apply xorb_false_l. }
  assert (Hitem : forall v, In v (t_items (table s)) -> v < 2 ^ (6 + ls) /\ 8 <= N.land v 63).
  { intros v Hv. destruct (c_items _ _ _ C v Hv) as [H1 H2]. split; auto.
    rewrite in_win_dense in H2 by auto. rewrite Ho in H2.
    destruct (N.leb_spec 0 (N.land v 63)); [|lia]. destruct (N.ltb_spec (N.land v 63) (0 + 8)); [discriminate|lia]. }
  set (bm1 := or_rows bm (2 ^ L - 1) srcW 0).
  assert (Hidx1 : forall j, (N.to_nat (N.land j (2 ^ L - 1)) < length bm1)%nat).
  { intros j. unfold bm1. rewrite or_rows_length. apply (MRep_idx L bm H M). }
  assert (Hbit : forall r c, bit (or_table_into_matrix bm1 L (table s)) r c =
            bit bm r c || (hit (2 ^ L - 1) srcW 0 r c || hit_items (2 ^ L - 1) (t_items (table s)) r c)).
  { intros r c. unfold or_table_into_matrix. rewrite fold_or_slot_bit by auto. unfold bm1.
    rewrite or_rows_bit by apply (MRep_idx L bm H M). now rewrite orb_assoc. }
  assert (Hiff : forall r c, r < 2 ^ L -> c < 64 ->
            (hit (2 ^ L - 1) srcW 0 r c || hit_items (2 ^ L - 1) (t_items (table s)) r c = true <->
             exists r', r' < 2 ^ ls /\ r' mod 2 ^ L = r /\ has hs r' c = true)).
  { intros r c Hr Hc. rewrite orb_true_iff, hit_spec, hit_items_spec. split.
    - intros [(j & Hj & H1 & H2)|(v & Hv & H1 & H2)].
      + rewrite HlW in Hj. rewrite HnW in H2 by auto. rewrite N.add_0_l, land_mask_mod in H1.
        exists (N.of_nat j). split; [lia|]. split; auto. rewrite HbF by (auto; lia).
        destruct (N.ltb_spec c 8); auto. rewrite (c_bytes _ _ _ C) in H2 by auto. discriminate.
      + destruct (Hitem v Hv) as [Hlt Hge]. rewrite land_mask_mod in H1.
        exists (N.shiftr v 6). split; [now apply row_lt|]. split; auto. rewrite HbF by (auto; now apply row_lt).
        destruct (N.ltb_spec c 8); [lia|]. rewrite <- H2, <- rcp_decode. now apply mem_In.
    - intros (r' & Hr' & H1 & H2). rewrite HbF in H2 by auto. destruct (N.ltb_spec c 8).
      + left. exists (N.to_nat r'). split; [lia|]. rewrite N2Nat.id, N.add_0_l, land_mask_mod. split; auto.
        rewrite HnW by lia. now rewrite N2Nat.id.
      + right. exists (rcp r' c). apply mem_In in H2. split; auto. rewrite rcp_row, rcp_col by auto.
        rewrite land_mask_mod. auto. }
  constructor.
  - unfold or_table_into_matrix. rewrite fold_or_slot_length. unfold bm1. rewrite or_rows_length. apply (m_len _ _ _ M).
  - intros r c Hr Hc. rewrite Hbit. rewrite (m_bits _ _ _ M) by auto. rewrite mem_app, orb_comm. f_equal.
    apply bool_eq_iff. rewrite Hiff by auto. symmetry. apply mem_folded; auto. apply (c_valid _ _ _ C).
  - intros r c Hr Hc. rewrite Hbit. rewrite (m_high _ _ _ M) by auto. simpl.
    destruct (hit (2 ^ L - 1) srcW 0 r c) eqn:E1.
    + apply hit_spec in E1. destruct E1 as (j & Hj & _ & H2). rewrite HlW in Hj. rewrite HnW in H2 by auto.
      rewrite (c_bytes _ _ _ C) in H2 by lia. discriminate.
    + simpl. destruct (hit_items (2 ^ L - 1) (t_items (table s)) r c) eqn:E2; auto.
      apply hit_items_spec in E2. destruct E2 as (v & _ & _ & E). pose proof (land63_lt v). lia.
  - apply valid_app; [|apply (m_valid _ _ _ M)]. apply (valid_folded L ls); auto. apply (c_valid _ _ _ C).
Qed.

(** ** walk_table_updating_sketch *)
Definition widx (lg stride : N) (i : nat) : N := (N.of_nat i * stride) mod 2 ^ lg.

Lemma widx_succ lg stride i : (widx lg stride i + stride) mod 2 ^ lg = widx lg stride (S i).
Proof.
  unfold widx. rewrite N.add_mod_idemp_l by (apply N.pow_nonzero; lia). f_equal. lia.
Qed.

Lemma widx_surj lg stride e : N.odd stride = true -> e < 2 ^ lg ->
  exists i, (i < N.to_nat (2 ^ lg))%nat /\ widx lg stride i = e.
Proof.
  intros Ho He.
  destruct (OpenAddr.probe_surj (N.to_nat (2 ^ lg)) (fun _ j => OpenAddr.probe_idx lg 0 stride j)) with (key := 0) (e := N.to_nat e)
    as (j & Hj & Hp).
  - intros k j. apply OpenAddr.probe_idx_lt.
  - intros k j1 j2. apply OpenAddr.probe_idx_inj. exact Ho.
  - lia.
  - exists j. split; auto. unfold OpenAddr.probe_idx in Hp. rewrite N.add_0_l in Hp. unfold widx. lia.
Qed.

Lemma dst_mask_fold la rc : N.land rc (N.lor (N.shiftl (2 ^ la - 1) 6) 63) = fold_rc la rc.
Proof. reflexivity. Qed.

Lemma walk_loop_spec la slots lg stride :
  (forall e, nthN slots e EMPTY <> EMPTY -> nthN slots e EMPTY < 2 ^ 32) -> la <= 26 ->
  forall n acc j h i a', SInv la acc h -> j mod 2 ^ lg = widx lg stride i ->
  walk_loop acc slots (2 ^ lg - 1) stride (N.lor (N.shiftl (2 ^ la - 1) 6) 63) j n = Some a' ->
  exists W, SInv la a' (W ++ h) /\
    forall x, In x W <-> exists i', (i <= i' < i + n)%nat /\ nthN slots (widx lg stride i') EMPTY <> EMPTY /\
                                   x = fold_rc la (nthN slots (widx lg stride i') EMPTY).
Proof.
  intros Hsl Hla. induction n as [|n IH]; intros acc j h i a' I Hj H.
  - simpl in H. inversion H; subst. exists []. split; auto. intros x. split; [intros []|]. intros (i' & Hi & _). lia.
  - cbn [walk_loop] in H. rewrite land_mask_mod, Hj in H.
    set (rc := nthN slots (widx lg stride i) EMPTY) in *.
    destruct (N.eqb_spec rc EMPTY) as [E|E].
    + apply (IH acc _ h (S i)) in H; auto; [|apply widx_succ].
      destruct H as (W & IW & HW). exists W. split; auto. intros x. rewrite HW. split.
      * intros (i' & Hi & H1 & H2). exists i'. split; [lia|auto].
      * intros (i' & Hi & H1 & H2). destruct (Nat.eq_dec i' i) as [->|Hne]; [fold rc in H1; contradiction|].
        exists i'. split; [lia|auto].
    + destruct (row_col_update acc (N.land rc (N.lor (N.shiftl (2 ^ la - 1) 6) 63))) as [acc1|] eqn:Eu; [|discriminate].
      rewrite dst_mask_fold in Eu.
      assert (I1 : SInv la acc1 (fold_rc la rc :: h)).
      { apply (step_rcu la acc h); auto; [apply fold_rc_lt|]. apply fold_rc_ne_empty; [apply Hsl; exact E|exact E]. }
      apply (IH acc1 _ (fold_rc la rc :: h) (S i)) in H; auto; [|apply widx_succ].
      destruct H as (W & IW & HW). exists (W ++ [fold_rc la rc]). split.
      * rewrite <- app_assoc. exact IW.
      * intros x. rewrite in_app_iff, HW. split.
        -- intros [(i' & Hi & H1 & H2)|[<-|[]]].
           ++ exists i'. split; [lia|auto].
           ++ exists i. split; [lia|]. split; auto.
        -- intros (i' & Hi & H1 & H2). destruct (Nat.eq_dec i' i) as [->|Hne].
           ++ right. left. auto.
           ++ left. exists i'. split; [lia|auto].
Qed.

Lemma walk_spec la a ha t a' :
  SInv la a ha -> TInv t -> (forall v, In v (t_items t) -> v < 2 ^ 32) -> la <= 26 ->
  walk_table_updating_sketch a t = Some a' ->
  exists W, SInv la a' (W ++ ha) /\ forall x, In x W <-> In x (map (fold_rc la) (t_items t)).
Proof.
  intros I Ht Hit Hla H. unfold walk_table_updating_sketch in H. rewrite (c_lgk _ _ _ (proj1 I)) in H.
  set (lg := t_lg t) in *.
  destruct (golden_stride (2 ^ lg) <? 2); [discriminate|].
  set (stride := if N.even (golden_stride (2 ^ lg)) then golden_stride (2 ^ lg) + 1 else golden_stride (2 ^ lg)) in *.
  destruct ((stride <? 3) || (2 ^ lg <=? stride)); [discriminate|].
  assert (Hodd : N.odd stride = true).
  { unfold stride. destruct (N.even (golden_stride (2 ^ lg))) eqn:E.
    - rewrite N.add_1_r, N.odd_succ. exact E.
    - rewrite <- N.negb_even, E. reflexivity. }
  destruct Ht as (Hlen & _ & _ & _). fold lg in Hlen.
  assert (Hnth : forall e, nthN (t_slots t) e EMPTY <> EMPTY -> In (nthN (t_slots t) e EMPTY) (t_items t)).
  { intros e He. apply In_filt. split; auto. unfold nthN in *.
    destruct (Nat.lt_ge_cases (N.to_nat e) (length (t_slots t))); [now apply nth_In|].
    rewrite nth_overflow in He by auto. contradiction. }
  destruct (walk_loop_spec la (t_slots t) lg stride) with (n := N.to_nat (2 ^ lg)) (acc := a) (j := 0) (h := ha) (i := 0%nat) (a' := a')
    as (W & IW & HW); auto.
  exists W. split; auto. intros x. rewrite HW, in_map_iff. split.
  - intros (i' & _ & H1 & ->). eexists. split; [reflexivity|]. now apply Hnth.
  - intros (v & <- & Hv). apply In_filt in Hv. destruct Hv as [Hv Hne].
    destruct (In_nth _ _ EMPTY Hv) as (e & He & Hnv).
    destruct (widx_surj lg stride (N.of_nat e) Hodd) as (i' & Hi' & Hw); [lia|].
    exists i'. rewrite Hw. unfold nthN. rewrite Nat2N.id, Hnv. split; [lia|]. split; auto.
Qed.

(** ** the union invariant *)
(* between updates: either a sparse (or empty) accumulator sketch of the union's lg_k, or a bit matrix *)
Inductive UInv (L : N) (u : union) (H : list N) : Prop :=
| UAcc a : u_lgk u = L -> u_acc u = Some a -> u_bm u = [] -> SInv L a H -> window a = [] -> UInv L u H
| UBm : u_lgk u = L -> u_acc u = None -> MRep L (u_bm u) H -> UInv L u H.

(* after reduce_k inside an update: additionally an EMPTY accumulator that still has its old, larger lg_k
   (reduce_k does not replace an empty accumulator); the union's lg_k is then the source's *)
Inductive PInv (L ls : N) (u : union) (H : list N) : Prop :=
| PU : UInv L u H -> PInv L ls u H
| PStale a la : u_lgk u = L -> u_acc u = Some a -> u_bm u = [] -> SInv la a [] -> window a = [] ->
                L <= la -> la <= 26 -> L = ls -> H = [] -> PInv L ls u H.

Lemma MRep_nonnil L bm H : MRep L bm H -> bm <> [].
Proof. intros M E. pose proof (m_len _ _ _ M). pose proof (pow2_pos L). subst bm. simpl in *. lia. Qed.

Lemma UInv_ext L u H H' : (forall x, In x H <-> In x H') -> UInv L u H -> UInv L u H'.
Proof.
  intros He [a A B C D E|A B C].
  - apply (UAcc L u H' a); auto. now apply (SInv_ext L a H H').
  - apply UBm; auto. now apply (MRep_ext L _ H H').
Qed.

Lemma flavor_notdense_window l s h : SInv l s h -> is_dense_flavor (determine_flavor l (ncoup s)) = false -> window s = [].
Proof.
  intros [C Cn] Hf. destruct (window s) eqn:E; auto. assert (Hd : window s <> []) by congruence.
  apply (n_dense _ _ _ Cn) in Hd. pose proof (pow2_pos l). unfold determine_flavor in Hf.
  destruct (N.eqb_spec (ncoup s) 0); [lia|]. destruct (N.ltb_spec (32 * ncoup s) (3 * 2 ^ l)); [lia|].
  destruct (2 * ncoup s <? 2 ^ l); [discriminate|]. destruct (8 * ncoup s <? 27 * 2 ^ l); discriminate.
Qed.

Lemma count_zero_hist l s h : SInv l s h -> ncoup s = 0 -> h = [].
Proof.
  intros [_ Cn] E. apply distinct_nil. rewrite (n_count _ _ _ Cn) in E. destruct (distinct h); auto. simpl in E. lia.
Qed.

Lemma hist_nil_count l s h : SInv l s h -> h = [] -> ncoup s = 0.
Proof. intros [_ Cn] ->. rewrite (n_count _ _ _ Cn). reflexivity. Qed.

Lemma items_lt32 l s h : SInv l s h -> l <= 26 -> forall v, In v (t_items (table s)) -> v < 2 ^ 32.
Proof.
  intros [C _] Hl v Hv. destruct (c_items _ _ _ C v Hv) as [H1 _].
  apply N.lt_le_trans with (2 ^ (6 + l)); auto. apply N.pow_le_mono_r; lia.
Qed.

(* the state after "walk the source table into the accumulator, switch to a bit matrix if it became dense" *)
Lemma after_walk L sd a' Hn :
  SInv L a' Hn ->
  forall u', (if is_dense_flavor (determine_flavor (lgk a') (ncoup a')) then switch_to_bit_matrix (mkU L sd (Some a') [])
              else Some (mkU L sd (Some a') [])) = Some u' ->
  UInv L u' Hn.
Proof.
  intros I u' H. rewrite (c_lgk _ _ _ (proj1 I)) in H.
  destruct (is_dense_flavor (determine_flavor L (ncoup a'))) eqn:Ed.
  - unfold switch_to_bit_matrix in H. cbn [u_acc u_lgk u_seed] in H.
    destruct (build_bit_matrix a') as [m|] eqn:Eb; [|discriminate]. inversion H; subst u'.
    apply UBm; auto. cbn [u_bm]. now apply (MRep_of_sketch L a' Hn m).
  - inversion H; subst u'. apply (UAcc _ _ _ a'); auto. now apply (flavor_notdense_window L a' Hn).
Qed.

Lemma reduce_k_spec L u H new u' : UInv L u H -> L <= 26 -> new < L ->
  reduce_k u new = Some u' -> PInv new new u' (map (fold_rc new) H).
Proof.
  intros I HL Hnew Hr. unfold reduce_k in Hr.
  destruct I as [a A B C D E|A B M].
  - rewrite A, B, C in Hr. destruct (N.leb_spec L new); [lia|].
    destruct (N.eqb_spec (ncoup a) 0) as [Ez|Ez].
    + (* empty accumulator: kept as it is *)
      assert (Hh : H = []) by (apply (count_zero_hist L a H); auto). subst H.
      rewrite Ez in Hr. replace (determine_flavor (lgk a) 0) with FL_EMPTY in Hr by reflexivity.
      cbn [is_dense_flavor FL_EMPTY N.eqb negb andb] in Hr. inversion Hr; subst u'.
      apply (PStale new new _ _ a L); auto. lia.
    + destruct (walk_table_updating_sketch (sk_new new (u_seed u)) (table a)) as [a'|] eqn:Ew; [|discriminate].
      destruct (walk_spec new (sk_new new (u_seed u)) [] (table a) a') as (W & IW & HW); auto.
      * apply SInv_init.
      * apply D.
      * apply (items_lt32 L a H); auto.
      * lia.
      * apply PU. apply (after_walk new (u_seed u) a'); auto.
        apply (SInv_ext new a' (W ++ [])); auto. intros x. rewrite app_nil_r, HW, !in_map_iff.
        split; intros (y & Hy & Hin); exists y; split; auto; now apply (sparse_items_hist L a H D E).
  - rewrite A, B in Hr. destruct (N.leb_spec L new); [lia|].
    pose proof (MRep_nonnil _ _ _ M) as Hne. destruct (u_bm u) as [|w0 bm0] eqn:Ebm; [congruence|].
    destruct (or_matrix_into_matrix (repeat 0 (N.to_nat (2 ^ new))) new (w0 :: bm0) L) as [m|] eqn:Eo; [|discriminate].
    inversion Hr; subst u'. apply PU. apply UBm; auto. cbn [u_bm].
    rewrite <- (app_nil_r (map (fold_rc new) H)).
    apply (MRep_or_matrix new (repeat 0 (N.to_nat (2 ^ new))) [] L (w0 :: bm0) H m); auto. apply MRep_zero. lia.
Qed.

(** ** one update of the union *)
Definition uu_tail (u : union) (s : sketch) (src_flavor : N) : option union :=
  match u_acc u, u_bm u with
  | None, [] => None
  | acc, bm =>
    match (if src_flavor =? FL_SPARSE then acc else None) with
    | Some a =>
      match bm with _ :: _ => None | [] =>
      let f0 := determine_flavor (lgk a) (ncoup a) in
      if is_dense_flavor f0 then None else
      if (f0 =? FL_EMPTY) && (u_lgk u =? lgk s) then Some (mkU (u_lgk u) (u_seed u) (Some s) [])
      else
        do a' <- walk_table_updating_sketch a (table s);
        let u' := mkU (u_lgk u) (u_seed u) (Some a') [] in
        if is_dense_flavor (determine_flavor (lgk a') (ncoup a')) then switch_to_bit_matrix u' else Some u'
      end
    | None =>
      if (src_flavor =? FL_SPARSE) && (match bm with [] => false | _ => true end) then
        match acc with Some _ => None | None =>
          Some (mkU (u_lgk u) (u_seed u) None (or_table_into_matrix bm (u_lgk u) (table s))) end
      else
      do u1 <- (match acc with
                | Some a =>
                  match bm with _ :: _ => None | [] =>
                    if is_dense_flavor (determine_flavor (lgk a) (ncoup a)) then None else switch_to_bit_matrix u
                  end
                | None => Some u
                end);
      match u_bm u1 with
      | [] => None
      | bm1 =>
        if (src_flavor =? FL_HYBRID) || (src_flavor =? FL_PINNED) then
          do m <- or_window_into_matrix bm1 (u_lgk u1) (window s) (woff s) (lgk s);
          Some (mkU (u_lgk u1) (u_seed u1) None (or_table_into_matrix m (u_lgk u1) (table s)))
        else
          do src <- build_bit_matrix s;
          do m <- or_matrix_into_matrix bm1 (u_lgk u1) src (lgk s);
          Some (mkU (u_lgk u1) (u_seed u1) None m)
      end
    end
  end.

Lemma union_update_unfold u s :
  union_update u s =
  if negb (compute_seed_hash (u_seed u) =? compute_seed_hash (seed s)) then None else
  let src_flavor := determine_flavor (lgk s) (ncoup s) in
  if src_flavor =? FL_EMPTY then Some u else
  do u2 <- (if lgk s <? u_lgk u then reduce_k u (lgk s) else Some u);
  if lgk s <? u_lgk u2 then None else uu_tail u2 s src_flavor.
Proof. reflexivity. Qed.

Lemma flavor_empty_iff l c : determine_flavor l c = FL_EMPTY <-> c = 0.
Proof.
  unfold determine_flavor. destruct (N.eqb_spec c 0); [tauto|]. split; [|tauto].
  destruct (32 * c <? 3 * 2 ^ l); [discriminate|]. destruct (2 * c <? 2 ^ l); [discriminate|].
  destruct (8 * c <? 27 * 2 ^ l); discriminate.
Qed.

Lemma flavor_cases l c : let f := determine_flavor l c in
  f = FL_EMPTY \/ f = FL_SPARSE \/ f = FL_HYBRID \/ f = FL_PINNED \/ f = FL_SLIDING.
Proof.
  unfold determine_flavor. destruct (c =? 0); auto. destruct (32 * c <? 3 * 2 ^ l); auto.
  destruct (2 * c <? 2 ^ l); auto. destruct (8 * c <? 27 * 2 ^ l); auto 6.
Qed.

Lemma uu_tail_spec L2 ls u2 H2 s hs u' :
  PInv L2 ls u2 H2 -> SInv ls s hs -> L2 <= ls -> ls <= 26 -> ncoup s <> 0 ->
  uu_tail u2 s (determine_flavor ls (ncoup s)) = Some u' ->
  exists H', UInv L2 u' H' /\ forall x, In x H' <-> In x (map (fold_rc L2) hs ++ H2).
Proof.
  intros P Is HL Hls Hne Ht.
  assert (Hlgs : lgk s = ls) by apply Is.
  assert (HL26 : L2 <= 26) by lia.
  pose proof (flavor_cases ls (ncoup s)) as Hfc. cbv zeta in Hfc.
  assert (Hnotempty : determine_flavor ls (ncoup s) <> FL_EMPTY) by (rewrite flavor_empty_iff; auto).
  set (fl := determine_flavor ls (ncoup s)) in *.
  (* the parts shared by the cases with a bit matrix *)
  assert (Hdense : forall bm1 sd, MRep L2 bm1 H2 -> fl <> FL_SPARSE ->
            (if (fl =? FL_HYBRID) || (fl =? FL_PINNED) then
               do m <- or_window_into_matrix bm1 L2 (window s) (woff s) ls;
               Some (mkU L2 sd None (or_table_into_matrix m L2 (table s)))
             else
               do src <- build_bit_matrix s;
               do m <- or_matrix_into_matrix bm1 L2 src ls;
               Some (mkU L2 sd None m)) = Some u' ->
            UInv L2 u' (map (fold_rc L2) hs ++ H2)).
  { intros bm1 sd M Hns Hc.
    assert (Hd : is_dense_flavor fl = true).
    { unfold is_dense_flavor. destruct (N.eqb_spec fl FL_EMPTY); [contradiction|]. destruct (N.eqb_spec fl FL_SPARSE); [contradiction|reflexivity]. }
    destruct ((fl =? FL_HYBRID) || (fl =? FL_PINNED)) eqn:Emid.
    - destruct (or_window_into_matrix bm1 L2 (window s) (woff s) ls) as [m|] eqn:Eo; [|discriminate].
      inversion Hc; subst u'. apply UBm; auto. cbn [u_bm].
      apply (MRep_or_dense0 L2 bm1 H2 ls s hs m); auto.
      + apply (flavor_dense_window ls s hs); auto.
      + apply (flavor_mid_offset ls s hs); auto. apply orb_true_iff in Emid. rewrite !N.eqb_eq in Emid. exact Emid.
    - destruct (build_bit_matrix s) as [src|] eqn:Eb; [|discriminate].
      destruct (or_matrix_into_matrix bm1 L2 src ls) as [m|] eqn:Eo; [|discriminate].
      inversion Hc; subst u'. apply UBm; auto. cbn [u_bm].
      apply (MRep_or_matrix L2 bm1 H2 ls src hs m); auto. now apply (MRep_of_sketch ls s hs src). }
  unfold uu_tail in Ht. rewrite Hlgs in Ht.
  destruct P as [[a A B C D E|A B M]|a la A B C D E F G Heq Hnil].
  - (* accumulator of the union's lg_k *)
    rewrite B, C in Ht.
    destruct (N.eqb_spec fl FL_SPARSE) as [Esp|Ensp]; rewrite ?(c_lgk _ _ _ (proj1 D)) in Ht.
    + (* case A *)
      assert (Hws : window s = []) by (apply (flavor_sparse_window ls s hs); auto).
      destruct (is_dense_flavor (determine_flavor L2 (ncoup a))); [discriminate|].
      rewrite A in Ht.
      destruct ((determine_flavor L2 (ncoup a) =? FL_EMPTY) && (L2 =? ls)) eqn:Ecopy.
      * apply andb_true_iff in Ecopy. destruct Ecopy as [E1 E2]. apply N.eqb_eq in E1, E2.
        apply flavor_empty_iff in E1. assert (H2 = []) by (apply (count_zero_hist L2 a H2); auto). subst H2.
        inversion Ht; subst u'. exists hs. rewrite E2. split.
        -- apply (UAcc _ _ _ s); auto.
        -- intros x. rewrite app_nil_r, in_map_iff. split.
           ++ intros Hx. exists x. split; auto. apply fold_rc_id. apply (c_valid _ _ _ (proj1 Is)). exact Hx.
           ++ intros (y & <- & Hy). rewrite fold_rc_id; auto. apply (c_valid _ _ _ (proj1 Is)). exact Hy.
      * destruct (walk_table_updating_sketch a (table s)) as [a'|] eqn:Ew; [|discriminate].
        destruct (walk_spec L2 a H2 (table s) a') as (W & IW & HW); auto.
        { apply Is. }
        { apply (items_lt32 ls s hs); auto. }
        exists (W ++ H2). split.
        -- apply (after_walk L2 (u_seed u2) a'); auto.
        -- intros x. rewrite !in_app_iff, HW, !in_map_iff. split.
           ++ intros [(y & Hy & Hin)|?]; auto. left. exists y. split; auto. now apply (sparse_items_hist ls s hs Is Hws).
           ++ intros [(y & Hy & Hin)|?]; auto. left. exists y. split; auto. now apply (sparse_items_hist ls s hs Is Hws).
    + (* dense source: switch to a bit matrix first *)
      cbn [andb] in Ht.
      destruct (is_dense_flavor (determine_flavor L2 (ncoup a))); [discriminate|].
      unfold switch_to_bit_matrix in Ht. rewrite B in Ht.
      destruct (build_bit_matrix a) as [m|] eqn:Eb; [|discriminate]. cbn [u_bm u_lgk u_seed] in Ht. rewrite A in Ht.
      pose proof (MRep_of_sketch L2 a H2 m D Eb) as M. pose proof (MRep_nonnil _ _ _ M) as Hmn.
      destruct m as [|w0 m0]; [congruence|].
      exists (map (fold_rc L2) hs ++ H2). split; [|tauto]. apply (Hdense (w0 :: m0) (u_seed u2)); auto.
  - (* bit matrix *)
    rewrite B in Ht. pose proof (MRep_nonnil _ _ _ M) as Hmn. destruct (u_bm u2) as [|w0 bm0] eqn:Ebm; [congruence|].
    destruct (N.eqb_spec fl FL_SPARSE) as [Esp|Ensp].
    + (* case B *)
      cbn [andb] in Ht. inversion Ht; subst u'. rewrite A.
      assert (Hws : window s = []) by (apply (flavor_sparse_window ls s hs); auto).
      exists (map (fold_rc L2) (t_items (table s)) ++ H2). split.
      * apply UBm; auto. cbn [u_bm]. apply (MRep_or_table L2 (w0 :: bm0) H2 (table s) ls); auto.
        intros v Hv. apply (c_items _ _ _ (proj1 Is) v Hv).
      * intros x. rewrite !in_app_iff, !in_map_iff. split.
        -- intros [(y & Hy & Hin)|?]; auto. left. exists y. split; auto. now apply (sparse_items_hist ls s hs Is Hws).
        -- intros [(y & Hy & Hin)|?]; auto. left. exists y. split; auto. now apply (sparse_items_hist ls s hs Is Hws).
    + cbn [andb] in Ht. rewrite ?Ebm in Ht. rewrite A in Ht.
      exists (map (fold_rc L2) hs ++ H2). split; [|tauto]. apply (Hdense (w0 :: bm0) (u_seed u2)); auto.
  - (* stale empty accumulator: the union's lg_k is the source's *)
    subst H2. rewrite B, C in Ht.
    assert (Hz : ncoup a = 0) by (apply (hist_nil_count la a []); auto).
    destruct (N.eqb_spec fl FL_SPARSE) as [Esp|Ensp]; rewrite ?(c_lgk _ _ _ (proj1 D)), ?Hz in Ht;
      replace (determine_flavor la 0) with FL_EMPTY in Ht by reflexivity;
      cbn [is_dense_flavor FL_EMPTY N.eqb negb andb] in Ht.
    + rewrite A, Heq, N.eqb_refl in Ht. inversion Ht; subst u'. exists hs. split.
      * apply (UAcc _ _ _ s); auto; try congruence. apply (flavor_sparse_window ls s hs); auto.
      * intros x. rewrite app_nil_r, in_map_iff. split.
        -- intros Hx. exists x. split; auto. apply fold_rc_id. rewrite Heq. apply (c_valid _ _ _ (proj1 Is)). exact Hx.
        -- intros (y & <- & Hy). rewrite fold_rc_id; auto. rewrite Heq. apply (c_valid _ _ _ (proj1 Is)). exact Hy.
    + unfold switch_to_bit_matrix in Ht. rewrite B in Ht.
      destruct (build_bit_matrix a) as [m|] eqn:Eb; [|discriminate]. cbn [u_bm u_lgk u_seed] in Ht. rewrite A in Ht.
      pose proof (MRep_empty_weaken L2 la m (MRep_of_sketch la a [] m D Eb) F) as M. pose proof (MRep_nonnil _ _ _ M) as Hmn.
      destruct m as [|w0 m0]; [congruence|].
      exists (map (fold_rc L2) hs ++ []). split; [|tauto]. apply (Hdense (w0 :: m0) (u_seed u2)); auto.
Qed.

Definition next_lg (L ls : N) (hs : list N) : N := match hs with [] => L | _ => N.min L ls end.

Lemma UInv_valid L u H : UInv L u H -> valid L H.
Proof. intros [a _ _ _ D _|_ _ M]; [apply D|apply M]. Qed.

Lemma UInv_lgk L u H : UInv L u H -> u_lgk u = L.
Proof. intros [a A _ _ _ _|A _ _]; auto. Qed.

Lemma PInv_lgk L ls u H : PInv L ls u H -> u_lgk u = L.
Proof. intros [I|a la A _ _ _ _ _ _ _ _]; auto. now apply (UInv_lgk L u H). Qed.

Lemma map_fold_id L H : valid L H -> forall x, In x (map (fold_rc L) H) <-> In x H.
Proof.
  intros Hv x. rewrite in_map_iff. split.
  - intros (y & <- & Hy). rewrite fold_rc_id; auto. now apply Hv.
  - intros Hx. exists x. split; auto. apply fold_rc_id. now apply Hv.
Qed.

Lemma union_update_spec L u H ls s hs u' :
  UInv L u H -> SInv ls s hs -> L <= 26 -> ls <= 26 ->
  union_update u s = Some u' ->
  exists H', UInv (next_lg L ls hs) u' H' /\
             forall x, In x H' <-> In x (map (fold_rc (next_lg L ls hs)) (hs ++ H)).
Proof.
  intros I Is HL Hls Hu. rewrite union_update_unfold in Hu.
  destruct (negb _); [discriminate|]. cbv zeta in Hu.
  assert (Hlgs : lgk s = ls) by apply Is. rewrite Hlgs in Hu.
  pose proof (UInv_lgk _ _ _ I) as Hlu.
  destruct (N.eqb_spec (determine_flavor ls (ncoup s)) FL_EMPTY) as [Ee|Ene].
  - apply flavor_empty_iff in Ee. assert (hs = []) by (apply (count_zero_hist ls s hs); auto). subst hs.
    inversion Hu; subst u'. exists H. split; auto. intros x. simpl. symmetry. apply map_fold_id. apply (UInv_valid L u H I).
  - assert (Hne : ncoup s <> 0) by (intros E; apply Ene; now apply flavor_empty_iff).
    assert (Hnl : next_lg L ls hs = N.min L ls).
    { destruct hs; auto. exfalso. apply Hne. now apply (hist_nil_count ls s []). }
    rewrite Hnl. rewrite Hlu in Hu. destruct (N.ltb_spec ls L) as [Hlt|Hge].
    + destruct (reduce_k u ls) as [u2|] eqn:Er; [|discriminate].
      pose proof (reduce_k_spec L u H ls u2 I HL Hlt Er) as P.
      rewrite (PInv_lgk _ _ _ _ P) in Hu. rewrite N.ltb_irrefl in Hu.
      rewrite N.min_r by lia.
      destruct (uu_tail_spec ls ls u2 _ s hs u' P Is) as (H' & I' & HH'); auto; try lia.
      exists H'. split; auto. intros x. rewrite HH', map_app. reflexivity.
    + rewrite Hlu in Hu. destruct (N.ltb_spec ls L); [lia|]. rewrite N.min_l by lia.
      destruct (uu_tail_spec L ls u H s hs u' (PU _ _ _ _ I) Is) as (H' & I' & HH'); auto.
      exists H'. split; auto. intros x. rewrite HH', map_app, !in_app_iff.
      rewrite (map_fold_id L H (UInv_valid L u H I)). reflexivity.
Qed.

(** ** get_result *)
Lemma SInv_fields l lg sd m n t w o f sd' m' h :
  SInv l (mkS lg sd m n t w o f) h -> SInv l (mkS lg sd' m' n t w o f) h.
Proof. intros [[c1 c2 c3 c4 c5 c6 c7 c8 c9 c10] [n1 n2 n3 n4]]. split; constructor; assumption. Qed.

Lemma nodup_bound (l : list N) n : NoDup l -> (forall x, In x l -> x < n) -> N.of_nat (length l) <= n.
Proof.
  intros Hnd Hb.
  assert (Hnd' : NoDup (map N.to_nat l)).
  { apply FinFun.Injective_map_NoDup; auto. intros x y. apply N2Nat.inj. }
  assert (Hincl : incl (map N.to_nat l) (seq 0 (N.to_nat n))).
  { intros y Hy. apply in_map_iff in Hy. destruct Hy as (x & <- & Hx). apply in_seq. specialize (Hb x Hx). lia. }
  pose proof (NoDup_incl_length Hnd' Hincl) as Hle. rewrite map_length, seq_length in Hle. lia.
Qed.

Lemma distinct_bound L H : valid L H -> L <= 26 -> N.of_nat (length (distinct H)) < 2 ^ 32.
Proof.
  intros Hv HL. apply N.le_lt_trans with EMPTY; [|reflexivity].
  apply nodup_bound; [apply distinct_NoDup|]. intros x Hx. apply (proj1 (distinct_In x H)) in Hx. destruct (Hv x Hx) as [H1 H2].
  assert (x < 2 ^ 32) by (apply N.lt_le_trans with (2 ^ (6 + L)); auto; apply N.pow_le_mono_r; lia).
  unfold EMPTY in *. change (2 ^ 32) with 4294967296 in *. lia.
Qed.

Lemma MRep_firstn L bm H : MRep L bm H -> MRep L (firstn (N.to_nat (2 ^ L)) bm) H /\
  length (firstn (N.to_nat (2 ^ L)) bm) = N.to_nat (2 ^ L).
Proof.
  intros [A B C D].
  assert (Hl : length (firstn (N.to_nat (2 ^ L)) bm) = N.to_nat (2 ^ L)) by (rewrite firstn_length; lia).
  assert (Hb : forall r c, r < 2 ^ L -> bit (firstn (N.to_nat (2 ^ L)) bm) r c = bit bm r c).
  { intros r c Hr. unfold bit, nthN. rewrite nth_firstn_lt by lia. reflexivity. }
  split; auto. constructor; auto.
  - lia.
  - intros r c Hr Hc. rewrite Hb by auto. auto.
  - intros r c Hr Hc. rewrite Hb by auto. auto.
Qed.

Lemma get_result_spec L u H r : UInv L u H -> L <= 26 -> get_result u = Some r -> woff r <= 56 ->
  lgk r = L /\ SInv L r H.
Proof.
  intros I HL Hg Ho. unfold get_result in Hg. destruct I as [a A B C D E|A B M].
  - rewrite B, C, A in Hg. rewrite (c_lgk _ _ _ (proj1 D)) in Hg. rewrite N.eqb_refl in Hg. cbn [negb] in Hg.
    destruct (N.eqb_spec (ncoup a) 0) as [Ez|Ez].
    + inversion Hg; subst r. split; auto. assert (H = []) by (apply (count_zero_hist L a H); auto). subst H. apply SInv_init.
    + destruct (negb _); [discriminate|]. inversion Hg; subst r. split; auto.
      destruct a as [lg sd m n t w o f]. cbn [lgk seed ncoup table window woff fic] in *.
      assert (Elg : lg = L) by apply D. subst lg.
      apply (SInv_fields L L sd m n t w o f); auto.
  - rewrite B in Hg. pose proof (MRep_nonnil _ _ _ M) as Hne. destruct (u_bm u) as [|w0 bm0] eqn:Ebm; [congruence|].
    unfold get_result_from_bit_matrix in Hg. rewrite A, Ebm in Hg.
    destruct (MRep_firstn L _ H M) as [Mf Hlen]. set (m := firstn (N.to_nat (2 ^ L)) (w0 :: bm0)) in *.
    assert (Hhigh : forall r0 c, 64 <= c -> bit m r0 c = false).
    { intros r0 c Hc. destruct (N.lt_ge_cases r0 (2 ^ L)); [now apply (m_high _ _ _ Mf)|].
      unfold bit. rewrite nthN_oob by lia. apply N.bits_0. }
    assert (Hpop : sum_popcount m = N.of_nat (length (distinct H))).
    { apply (popcount_matrix L); auto; [apply (m_valid _ _ _ Mf)|apply (m_bits _ _ _ Mf)]. }
    assert (Hc32 : w32 (sum_popcount m) = N.of_nat (length (distinct H))).
    { rewrite Hpop. rewrite w32_mod. apply N.mod_small. apply (distinct_bound L); auto. apply (m_valid _ _ _ Mf). }
    rewrite Hc32 in Hg. set (c := N.of_nat (length (distinct H))) in *.
    destruct (is_dense_flavor (determine_flavor L c)) eqn:Ed; [|discriminate]. cbn [negb] in Hg.
    destruct (rows_loop m 0 (determine_correct_offset L c) _ 0) as [[[win t'] ored]|] eqn:Erl; [|discriminate].
    inversion Hg; subst r; clear Hg. cbn [woff] in Ho. split; auto.
    set (tlg := if L - 4 <? 2 then 2 else L - 4) in *.
    assert (Hhas : forall r0 c0, r0 < 2 ^ L -> c0 < 64 -> bit m r0 c0 = has H r0 c0) by (intros; now apply (m_bits _ _ _ Mf)).
    pose proof (rebuilt_core L H m (determine_correct_offset L c) (t_new tlg (6 + L)) win t' ored (u_seed u) true c
                  Hlen Hhas Hhigh (m_valid _ _ _ Mf) Ho (TInv_new _ _) (t_items_new _ _) Erl) as Cr.
    assert (Hlw : length win = N.to_nat (2 ^ L)).
    { destruct (rows_loop_spec _ Ho _ _ _ _ _ _ _ Erl (TInv_new _ _)) as (_ & Bw & _); auto.
      - intros w Hw. destruct (In_nth _ _ 0 Hw) as (j & Hj & <-). apply bits_lt64. intros c0 Hc0.
        specialize (Hhigh (N.of_nat j) c0 Hc0). unfold bit, nthN in Hhigh. now rewrite Nat2N.id in Hhigh.
      - reflexivity.
      - intros j c0 Hj Hb Hemp.
        assert (Hw : nth j m 0 < two64).
        { apply bits_lt64. intros c1 Hc1. specialize (Hhigh (N.of_nat j) c1 Hc1). unfold bit, nthN in Hhigh. now rewrite Nat2N.id in Hhigh. }
        pose proof (P2_bit_lt64 _ _ _ Hw Ho Hb) as Hc64. rewrite P2_bit in Hb by auto.
        rewrite N.add_0_l in Hemp.
        assert (Hc63 : c0 = 63) by (rewrite <- (rcp_col (N.of_nat j) c0 Hc64), Hemp; reflexivity).
        destruct (N.ltb_spec c0 (determine_correct_offset L c)); [lia|].
        destruct (N.ltb_spec c0 (determine_correct_offset L c + 8)); [discriminate|].
        assert (Hbm : bit m (N.of_nat j) c0 = true) by (unfold bit, nthN; now rewrite Nat2N.id).
        rewrite Hhas in Hbm by (auto; lia). unfold has in Hbm. apply mem_In in Hbm.
        apply (m_valid _ _ _ Mf) in Hbm. tauto.
      - lia. }
    split; auto. constructor; cbn [ncoup window woff]; auto.
    + intros E. subst win. simpl in Hlw. pose proof (pow2_pos L). lia.
    + intros _. unfold is_dense_flavor, determine_flavor in Ed.
      destruct (N.eqb_spec c 0); [discriminate|]. destruct (N.ltb_spec (32 * c) (3 * 2 ^ L)); [discriminate|auto].
Qed.

(** ** any sequence of inputs *)
Definition union_run (u0 : union) (ss : list sketch) : option union :=
  fold_left (fun acc s => do u <- acc; union_update u s) ss (Some u0).

(* an input: a sketch together with a coupon history it represents *)
Definition input_ok (p : sketch * list N) : Prop := SInv (lgk (fst p)) (fst p) (snd p) /\ lgk (fst p) <= 26.
Definition descr (ins : list (sketch * list N)) : list (N * list N) := map (fun p => (lgk (fst p), snd p)) ins.

Lemma fold_mask_bit L j : N.testbit (N.lor (N.shiftl (2 ^ L - 1) 6) 63) j = (j <? 6) || (j - 6 <? L).
Proof.
  rewrite N.lor_spec. change 63 with (2 ^ 6 - 1). rewrite ones_bit, shiftl_bit, ones_bit.
  destruct (N.ltb_spec j 6); destruct (N.leb_spec 6 j); try lia; simpl; auto. now rewrite orb_false_r.
Qed.

Lemma fold_rc_fold L2 L1 x : L2 <= L1 -> fold_rc L2 (fold_rc L1 x) = fold_rc L2 x.
Proof.
  intros Hle. unfold fold_rc. rewrite <- N.land_assoc. f_equal. apply N.bits_inj. intros j.
  rewrite N.land_spec, !fold_mask_bit. destruct (N.ltb_spec j 6); simpl; auto.
  destruct (N.ltb_spec (j - 6) L2); destruct (N.ltb_spec (j - 6) L1); auto; lia.
Qed.

Lemma union_lg_cons L p ins : union_lg L (p :: ins) = union_lg (next_lg L (fst p) (snd p)) ins.
Proof. unfold union_lg. simpl. destruct (snd p); reflexivity. Qed.

Lemma union_lg_le L ins : union_lg L ins <= L.
Proof.
  revert L. induction ins as [|p t IH]; intros L; [apply N.le_refl|]. rewrite union_lg_cons.
  eapply N.le_trans; [apply IH|]. unfold next_lg. destruct (snd p); [lia|apply N.le_min_l].
Qed.

Lemma fold_none_union ss : fold_left (fun acc s => do u <- acc; union_update u s) ss None = None.
Proof. induction ss; simpl; auto. Qed.

Lemma union_run_spec ins : Forall input_ok ins -> forall L u H u', UInv L u H -> L <= 26 ->
  union_run u (map fst ins) = Some u' ->
  exists H', UInv (union_lg L (descr ins)) u' H' /\
             forall x, In x H' <-> In x (map (fold_rc (union_lg L (descr ins))) (H ++ flat_map snd ins)).
Proof.
  induction ins as [|[s hs] t IH]; intros Hok L u H u' I HL Hr.
  - simpl in Hr. inversion Hr; subst u'. exists H. split; auto. intros x. simpl. rewrite app_nil_r.
    symmetry. apply map_fold_id. apply (UInv_valid L u H I).
  - inversion Hok as [|p l [Is Hls] Ht]; subst. simpl in Is, Hls.
    unfold union_run in Hr. cbn [map fold_left fst] in Hr.
    destruct (union_update u s) as [u1|] eqn:Eu; [|rewrite fold_none_union in Hr; discriminate].
    destruct (union_update_spec L u H (lgk s) s hs u1 I Is HL Hls Eu) as (H1 & I1 & HH1).
    set (L1 := next_lg L (lgk s) hs) in *.
    assert (HL1 : L1 <= 26) by (unfold L1, next_lg; destruct hs; [lia|]; pose proof (N.le_min_l L (lgk s)); lia).
    destruct (IH Ht L1 u1 H1 u' I1 HL1 Hr) as (H' & I' & HH').
    unfold descr. cbn [map fst snd]. rewrite union_lg_cons. cbn [fst snd]. fold L1. fold (descr t).
    exists H'. split; auto. intros x. rewrite HH'. cbn [flat_map snd].
    pose proof (union_lg_le L1 (descr t)) as Hle. set (Lf := union_lg L1 (descr t)) in *.
    rewrite !in_map_iff. split.
    + intros (y & Hy & Hin). apply in_app_or in Hin. destruct Hin as [Hin|Hin].
      * apply HH1 in Hin. apply in_map_iff in Hin. destruct Hin as (z & <- & Hz).
        exists z. split; [rewrite <- Hy; symmetry; now apply fold_rc_fold|].
        apply in_app_or in Hz. apply in_or_app. destruct Hz; [right; apply in_or_app; auto|auto].
      * exists y. split; auto. apply in_or_app. right. apply in_or_app. auto.
    + intros (z & Hz & Hin). apply in_app_or in Hin. destruct Hin as [Hin|Hin].
      * exists (fold_rc L1 z). split; [rewrite <- Hz; now apply fold_rc_fold|].
        apply in_or_app. left. apply HH1. apply in_map_iff. exists z. split; auto. apply in_or_app. auto.
      * apply in_app_or in Hin. destruct Hin as [Hin|Hin].
        -- exists (fold_rc L1 z). split; [rewrite <- Hz; now apply fold_rc_fold|].
           apply in_or_app. left. apply HH1. apply in_map_iff. exists z. split; auto. apply in_or_app. auto.
        -- exists z. split; auto. apply in_or_app. auto.
Qed.

Lemma UInv_new lgu sd : UInv lgu (un_new lgu sd) [].
Proof. apply (UAcc _ _ _ (sk_new lgu sd)); auto. apply SInv_init. Qed.

Lemma union_log_set lgu d x : In x (union_log lgu d) <-> In x (map (fold_rc (union_lg lgu d)) (flat_map snd d)).
Proof.
  unfold union_log. cbv zeta. set (l := union_lg lgu d). clearbody l. induction d as [|p t IH]; simpl; [tauto|].
  rewrite map_app, !in_app_iff, IH. tauto.
Qed.

Lemma flat_map_descr ins : flat_map snd (descr ins) = flat_map snd ins.
Proof. induction ins as [|p t IH]; simpl; auto. now rewrite IH. Qed.

(* THE union theorem: result lg_k = min over the union and its non-empty inputs; the result represents exactly the
   inputs' coupons folded to that many rows *)
Theorem union_spec lgu sd ins u r :
  lgu <= 26 -> Forall input_ok ins ->
  union_run (un_new lgu sd) (map fst ins) = Some u -> get_result u = Some r -> woff r <= 56 ->
  let L := union_lg lgu (descr ins) in
  lgk r = L /\ SInv L r (union_log lgu (descr ins)).
Proof.
  intros Hl Hok Hr Hg Ho L.
  destruct (union_run_spec ins Hok lgu _ [] u (UInv_new lgu sd) Hl Hr) as (H' & I & HH). fold L in I, HH.
  assert (HL : L <= 26) by (pose proof (union_lg_le lgu (descr ins)); unfold L; lia).
  destruct (get_result_spec L u H' r I HL Hg Ho) as [A B]. split; auto.
  apply (SInv_ext L r H'); auto. intros x. rewrite HH, union_log_set, flat_map_descr. reflexivity.
Qed.

(* matrix form: build_bit_matrix(result) is the spec matrix of the folded union of the histories, the coupon
   count is its popcount, and a bit is set iff some input has a set bit in a row that folds onto it *)
Theorem union_matrix lgu sd ins u r :
  lgu <= 26 -> Forall input_ok ins ->
  union_run (un_new lgu sd) (map fst ins) = Some u -> get_result u = Some r -> woff r <= 56 ->
  let L := union_lg lgu (descr ins) in
  build_bit_matrix r = Some (spec_matrix L (union_log lgu (descr ins))) /\
  ncoup r = sum_popcount (spec_matrix L (union_log lgu (descr ins))) /\
  forall row c, row < 2 ^ L -> c < 64 ->
    (bit (spec_matrix L (union_log lgu (descr ins))) row c = true <->
     exists p row', In p ins /\ row' < 2 ^ lgk (fst p) /\ row' mod 2 ^ L = row /\
                    bit (spec_matrix (lgk (fst p)) (snd p)) row' c = true).
Proof.
  intros Hl Hok Hr Hg Ho L. destruct (union_spec lgu sd ins u r Hl Hok Hr Hg Ho) as [A I]. fold L in A, I.
  assert (Hv : valid_rcs L (union_log lgu (descr ins))) by apply I.
  destruct (bbm_some _ _ _ I) as [m Hm]. pose proof (abs_is_spec L r _ m I Hm Hv) as Em. subst m.
  destruct (spec_matrix_bits L _ Hv) as (SA & SB & SC).
  split; auto. split.
  - rewrite (n_count _ _ _ (proj2 I)). symmetry. apply (popcount_matrix L); auto.
  - intros row c Hrow Hc. rewrite SB by auto. rewrite mem_In, union_log_set, flat_map_descr, in_map_iff. fold L. split.
    + intros (x & Hx & Hin). apply in_flat_map in Hin. destruct Hin as (p & Hp & Hxp).
      rewrite Forall_forall in Hok. destruct (Hok p Hp) as [Ip Hlp].
      assert (Hvp : valid (lgk (fst p)) (snd p)) by apply Ip.
      destruct (Hvp x Hxp) as [Hlt _]. destruct (rc_parts _ x Hlt) as (Hdec & Hr' & Hc').
      rewrite Hdec, fold_rc_rcp in Hx by auto. apply rcp_inj in Hx; auto. destruct Hx as [Hx1 Hx2].
      exists p, (N.shiftr x 6). split; auto. split; auto. split; auto.
      destruct (spec_matrix_bits (lgk (fst p)) (snd p) Hvp) as (_ & SBp & _). rewrite SBp by (auto; lia).
      apply mem_In. rewrite <- Hx2, <- Hdec. exact Hxp.
    + intros (p & row' & Hp & Hr' & Hmd & Hb). rewrite Forall_forall in Hok. destruct (Hok p Hp) as [Ip Hlp].
      assert (Hvp : valid (lgk (fst p)) (snd p)) by apply Ip.
      destruct (spec_matrix_bits (lgk (fst p)) (snd p) Hvp) as (_ & SBp & _). rewrite SBp in Hb by auto.
      apply mem_In in Hb. exists (rcp row' c). split; [rewrite fold_rc_rcp by auto; now rewrite Hmd|].
      apply in_flat_map. exists p. auto.
Qed.

(* order independence *)
Lemma union_lg_perm L d d' : Permutation d d' -> union_lg L d = union_lg L d'.
Proof.
  intros P. revert L. induction P; intros L; auto.
  - rewrite !union_lg_cons. apply IHP.
  - rewrite !union_lg_cons. f_equal. unfold next_lg. destruct (snd x), (snd y); auto.
    rewrite <- !N.min_assoc. f_equal. apply N.min_comm.
  - now rewrite IHP1.
Qed.

Theorem union_perm lgu sd ins ins' u u' r r' :
  lgu <= 26 -> Forall input_ok ins -> Permutation ins ins' ->
  union_run (un_new lgu sd) (map fst ins) = Some u -> get_result u = Some r -> woff r <= 56 ->
  union_run (un_new lgu sd) (map fst ins') = Some u' -> get_result u' = Some r' -> woff r' <= 56 ->
  lgk r = lgk r' /\ build_bit_matrix r = build_bit_matrix r' /\ ncoup r = ncoup r' /\ woff r = woff r'.
Proof.
  intros Hl Hok P Hr Hg Ho Hr' Hg' Ho'.
  assert (Hok' : Forall input_ok ins') by (eapply Permutation_Forall; eauto).
  destruct (union_spec lgu sd ins u r Hl Hok Hr Hg Ho) as [A I].
  destruct (union_spec lgu sd ins' u' r' Hl Hok' Hr' Hg' Ho') as [A' I'].
  assert (Pd : Permutation (descr ins) (descr ins')) by (unfold descr; now apply Permutation_map).
  assert (EL : union_lg lgu (descr ins) = union_lg lgu (descr ins')) by now apply union_lg_perm.
  set (L := union_lg lgu (descr ins)) in *.
  assert (Hset : forall x, In x (union_log lgu (descr ins')) <-> In x (union_log lgu (descr ins))).
  { intros x. rewrite !union_log_set, <- EL, !flat_map_descr, !in_map_iff. fold L.
    split; intros (y & Hy & Hin); exists y; split; auto; apply in_flat_map in Hin; destruct Hin as (p & Hp & Hin);
      apply in_flat_map; exists p; split; auto; [eapply Permutation_in; [symmetry|]; eauto|eapply Permutation_in; eauto]. }
  rewrite <- EL in I', A'. apply (SInv_ext L r' _ _ Hset) in I'.
  split; [congruence|].
  destruct (bbm_some _ _ _ I) as [m Hm]. destruct (bbm_some _ _ _ I') as [m' Hm'].
  assert (Hv : valid_rcs L (union_log lgu (descr ins))) by apply I.
  rewrite Hm, Hm', (abs_is_spec L r _ m I Hm Hv), (abs_is_spec L r' _ m' I' Hm' Hv).
  split; auto. split.
  - rewrite (n_count _ _ _ (proj2 I)), (n_count _ _ _ (proj2 I')). reflexivity.
  - rewrite (n_off _ _ _ (proj2 I)), (n_off _ _ _ (proj2 I')), (n_count _ _ _ (proj2 I)), (n_count _ _ _ (proj2 I')). reflexivity.
Qed.

(* sketches produced by runs (and union results, by union_spec) are admissible inputs *)
Lemma input_ok_of_run l sd rcs s : valid_rcs l rcs -> l <= 26 -> sk_run l sd rcs = Some s -> input_ok (s, rev rcs).
Proof.
  intros Hv Hl Hr. pose proof (run_inv l sd rcs s Hv Hr) as I.
  assert (E : lgk s = l) by apply I. unfold input_ok. cbn [fst snd]. rewrite E. auto.
Qed.
