(* KllCodecDefs.v — executable model of the KLL serialization layout (kll_sketch::serialize / deserialize(bytes) in
   kll_sketch_impl.hpp:365-597 with the arithmetic serde of common/include/serde.hpp), no proofs here.
   Layout (little endian), as documented in kll_sketch.hpp:
     byte 0 preamble_ints (2 = empty or single item, 5 = full)   byte 1 serial version (2 = single item, else 1)
     byte 2 family (15)   byte 3 flags (bit 0 empty, bit 1 level zero sorted, bit 2 single item)
     bytes 4-5 k   byte 6 m (8)   byte 7 unused
     full only: bytes 8-15 n, 16-17 min_k, 18 num_levels, 19 unused, then num_levels uint32 level offsets
                (levels_[0 .. num_levels-1]; levels_[num_levels] = items_size_ is derived), min item, max item
     then the retained items from level 0 upwards (physical order).
   Items: kind 0 = int64 (two's complement), kind 1 = double holding an integer of magnitude < 2^53 (IEEE-754 binary64
   pattern computed in integer arithmetic).  Strings (kind 2) are not modelled here. *)
From Coq Require Import ZArith List Bool Lia.
From DS Require Import RunnerLib SortedView KllDefs.
Import ListNotations.
Local Open Scope Z_scope.

(* ---------- little endian ---------- *)
Fixpoint le (n : nat) (x : Z) : list Z :=
  match n with
  | O => []
  | S n' => (x mod 256) :: le n' (x / 256)
  end.
Fixpoint from_le (bs : list Z) : Z :=
  match bs with
  | [] => 0
  | b :: r => b + 256 * from_le r
  end.

(* ---------- items ---------- *)
Definition enc_i64 (v : Z) : list Z := le 8 v.                                     (* two's complement: v mod 2^64 *)
Definition dec_i64 (bs : list Z) : Z := let u := from_le bs in if u <? 2 ^ 63 then u else u - 2 ^ 64.

(* IEEE-754 binary64 pattern of the integer v, |v| < 2^53 *)
Definition dbl_bits (v : Z) : Z :=
  if v =? 0 then 0 else
  let a := Z.abs v in
  let e := Z.log2 a in
  (if v <? 0 then 2 ^ 63 else 0) + (e + 1023) * 2 ^ 52 + (a * 2 ^ (52 - e) - 2 ^ 52).

(* the integer a binary64 pattern denotes; None when it is not an integer of magnitude < 2^53 (or is -0.0, NaN, inf) *)
Definition dbl_int (u : Z) : option Z :=
  if u =? 0 then Some 0 else
  let sgn := u / 2 ^ 63 in
  let be := (u mod 2 ^ 63) / 2 ^ 52 in
  let man := u mod 2 ^ 52 in
  let e := be - 1023 in
  if (e <? 0) || (52 <? e) then None else
  let full := 2 ^ 52 + man in
  if full mod 2 ^ (52 - e) =? 0 then Some ((if sgn =? 0 then 1 else -1) * (full / 2 ^ (52 - e))) else None.

Definition item_enc (kind v : Z) : list Z := if kind =? 1 then le 8 (dbl_bits v) else enc_i64 v.
Definition item_dec (kind : Z) (bs : list Z) : option Z :=
  if kind =? 1 then dbl_int (from_le bs) else Some (dec_i64 bs).

(* ---------- encoder ---------- *)
(* levels_[i] for i < num_levels, given levels_[num_levels] = items_size_ *)
Fixpoint offsets (cp : Z) (lv : list (list Z)) : list Z :=
  match lv with
  | [] => []
  | l :: r => (cp - retained lv) :: offsets cp r
  end.

Definition flags_of (s : kll) : Z :=
  (if nn s =? 0 then 1 else 0) + (if l0s s then 2 else 0) + (if nn s =? 1 then 4 else 0).

Definition kll_enc (kind : Z) (s : kll) : list Z :=
  let empty := nn s =? 0 in
  let single := nn s =? 1 in
  [if empty || single then 2 else 5; if single then 2 else 1; 15; flags_of s] ++ le 2 (kk s) ++ [8; 0] ++
  (if empty then [] else
   (if single then [] else
    le 8 (nn s) ++ le 2 (min_k s) ++ [len (levels s); 0] ++ flat_map (le 4) (offsets (cap s) (levels s)) ++
    item_enc kind (mn s) ++ item_enc kind (mx s)) ++
   flat_map (item_enc kind) (concat (levels s))).

(* ---------- decoder (deserialize(const void*, size_t)) ---------- *)
Definition take (n : nat) (bs : list Z) : option (list Z * list Z) :=
  if (n <=? length bs)%nat then Some (firstn n bs, skipn n bs) else None.

Fixpoint take_items (kind : Z) (n : nat) (bs : list Z) : option (list Z * list Z) :=
  match n with
  | O => Some ([], bs)
  | S n' =>
      match take 8 bs with
      | Some (b, r) =>
          match item_dec kind b, take_items kind n' r with
          | Some v, Some (vs, r') => Some (v :: vs, r')
          | _, _ => None
          end
      | None => None
      end
  end.

Fixpoint take_u32s (n : nat) (bs : list Z) : option (list Z * list Z) :=
  match n with
  | O => Some ([], bs)
  | S n' =>
      match take 4 bs with
      | Some (b, r) =>
          match take_u32s n' r with
          | Some (vs, r') => Some (from_le b :: vs, r')
          | None => None
          end
      | None => None
      end
  end.

(* level sizes from the offsets and the derived last one *)
Fixpoint diffs (offs : list Z) (last : Z) : list Z :=
  match offs with
  | [] => []
  | a :: r => ((match r with [] => last | b :: _ => b end) - a) :: diffs r last
  end.

Fixpoint split_levels (sizes : list Z) (items : list Z) : list (list Z) :=
  match sizes with
  | [] => []
  | n :: r => firstn (Z.to_nat n) items :: split_levels r (skipn (Z.to_nat n) items)
  end.

Definition bit (flags : Z) (i : Z) : bool := Z.testbit flags i.

Definition kll_dec (kind : Z) (bytes : list Z) : option kll :=
  match bytes with
  | pre :: sv :: fam :: flags :: k0 :: k1 :: m :: _ :: rest =>
      let k := k0 + 256 * k1 in
      let empty := bit flags 0 in
      let sorted := bit flags 1 in
      let single := bit flags 2 in
      if negb (m =? 8) then None else                                                (* check_m *)
      if negb (pre =? (if empty || single then 2 else 5)) then None else             (* check_preamble_ints *)
      if negb ((sv =? 1) || (sv =? 2)) then None else                                (* check_serial_version *)
      if negb (fam =? 15) then None else                                             (* check_family_id *)
      if len bytes <? pre * 4 then None else                                         (* ensure_minimum_memory *)
      if empty then                                                                  (* kll_sketch(k): checks k; the sorted flag is restored
                                                                                        (repair fixes/09_kll_empty_flag.patch; as coded before: Regression_C09_kll) *)
        (if (8 <=? k) && (k <=? 65535) then Some (mkkll k k 0 k [[]] sorted 0 0) else None)
      else if single then
        match take_items kind 1 rest with
        | Some ([v], []) => Some (mkkll k k 1 (total_capacity k 1) [[v]] sorted v v)
        | _ => None
        end
      else
        match take 8 rest with
        | Some (bn, r1) =>
          match take 2 r1 with
          | Some (bmk, r2) =>
            match r2 with
            | nl :: _ :: r3 =>
              if nl =? 0 then None else
              match take_u32s (Z.to_nat nl) r3 with
              | Some (offs, r4) =>
                let cp := total_capacity k (Z.to_nat nl) in
                let sizes := diffs offs cp in
                if negb (forallb (fun d => 0 <=? d) sizes) || (hd 0 offs <? 0) then None else   (* garbage offsets: undefined behaviour *)
                match take_items kind 2 r4 with
                | Some ([lo; hi], r5) =>
                  match take_items kind (Z.to_nat (cp - hd 0 offs)) r5 with
                  | Some (items, []) =>
                      Some (mkkll k (from_le bmk) (from_le bn) cp (split_levels sizes items) sorted lo hi)
                  | _ => None
                  end
                | _ => None
                end
              | None => None
              end
            | _ => None
            end
          | None => None
          end
        | None => None
        end
  | _ => None                                                                        (* fewer than 8 bytes *)
  end.

(* ---------- line protocol: the KLL operations of KllDefs plus the codec operations ---------- *)
(*   20 r        : R = serialize(r) (bytes)
     21 r r2     : r := deserialize(serialize(r2))  (r2 keeps its ghost log; R = 1, or -1 when the decoder refuses)
     23 r r2     : r.merge(r2) without ghost log (deep-level histories of C07, family klldeep)
     22 r kind bytes: r := deserialize(bytes) as a sketch of item kind [kind]; ghost log empty (the oracle does not use it) *)
Definition cstep (s : st) (o e : line) : st * outline :=
  match o with
  | 20 :: r :: _ =>
      match reg_get s r with
      | Some g => if (r_kind g =? 0) || (r_kind g =? 1) then (s, (kll_enc (r_kind g) (r_sk g), [])) else (s, (refused, []))
      | None => (s, (refused, []))
      end
  | 21 :: r :: r2 :: _ =>
      match reg_get s r2 with
      | Some g =>
          if (r_kind g =? 0) || (r_kind g =? 1) then
            match kll_dec (r_kind g) (kll_enc (r_kind g) (r_sk g)) with
            | Some sk => (reg_set s r (mkreg (r_kind g) sk (r_log g)), (ok, []))
            | None => (s, (refused, []))
            end
          else (s, (refused, []))
      | None => (s, (refused, []))
      end
  | 22 :: r :: kind :: bytes =>
      if (kind =? 0) || (kind =? 1) then
        match kll_dec kind bytes with
        | Some sk => (reg_set s r (mkreg kind sk []), (ok, []))
        | None => (s, (refused, []))
        end
      else (s, (refused, []))
  | 23 :: r :: r2 :: _ =>
      (* r.merge(r2) WITHOUT extending the ghost log: for the deep-level histories (a sketch merged with a copy of itself
         28..36 times: n doubles every time, the list of all given items cannot be kept; the oracle tracks n) *)
      match reg_get s r, reg_get s r2 with
      | Some g, Some g2 =>
          if (r =? r2) || negb (r_kind g =? r_kind g2) then (s, (refused, [])) else
          match replay (merge (r_sk g) (r_sk g2)) e with
          | Some (sk, []) => (reg_set s r (mkreg (r_kind g) sk []), (ok, []))
          | _ => (s, ([-3], []))
          end
      | _, _ => (s, (refused, []))
      end
  | _ => step s o e
  end.

Definition crun (ops : list opline) : list outline := run_case cstep [] ops.
