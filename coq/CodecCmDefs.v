(* CodecCmDefs.v — executable model of the count-min sketch image (count/include/count_min_impl.hpp):
   writer serialize() (bytes and stream write the same image), readers deserialize(bytes, size, seed) and
   deserialize(istream, seed).  Layout (little endian):
     byte 0 preamble longs = 2 | 1 serial version = 1 | 2 family id = 18 | 3 flags (bit 0 = empty) | 4..7 unused
     8..11 num_buckets | 12 num_hashes | 13..14 seed hash | 15 unused
     then, unless empty: 16..23 total weight (W = int64, two's complement) | 24.. the table, 8 bytes per cell, row major.
   The readers are modelled as REPAIRED by fixes/11_count_min_reader_checks.patch (the remaining size is checked against
   16 + 8*(1 + buckets*hashes) before the table is built from the bytes; the stream reader tests the stream state);
   the behaviour of the unrepaired readers is kept in Regression_cmcodec.v.  A read outside the supplied bytes is a
   rejection.  No proofs here. *)
From Coq Require Import NArith ZArith List Bool Arith.
From DS Require Import Word RunnerLib ThetaCodecDefs.
Import ListNotations.
Local Open Scope N_scope.

Record cm := { c_nh : N; c_nb : N; c_seed_hash : N; c_total : N; c_cells : list N }.

Definition cm_empty (s : cm) : bool := c_total s =? 0.          (* is_empty(): total weight == 0 *)
Definition ncells (nh nb : N) : N := nh * nb.   (* 64-bit product: the constructor as repaired by fixes/11_count_min_product_overflow.patch;
                                                   the uint32 product of the unrepaired constructor is kept in Regression_cmcodec.v *)

Definition enc (s : cm) : list N :=
  [2; 1; 18; (if cm_empty s then 1 else 0); 0; 0; 0; 0] ++
  u32 (c_nb s) ++ [c_nh s] ++ u16 (c_seed_hash s) ++ [0] ++
  (if cm_empty s then [] else u64 (c_total s) ++ flat_map u64 (c_cells s)).

(* get_serialized_size_bytes(): preamble longs * 8 + (empty ? 0 : 8 * (1 + buckets * hashes)) *)
Definition serialized_size (s : cm) : N :=
  16 + (if cm_empty s then 0 else 8 * (1 + c_nb s * c_nh s)).

(* check_header_validity: the switch value is computed in a uint8 *)
Definition header_ok (pre ver fam flags : N) : bool :=
  let sw := w8 ((if N.testbit flags 0 then 1 else 0) + 2 * ver + 4 * fam + 32 * N.land pre 63) in
  (sw =? 138) || (sw =? 139).

(* the constructor refuses fewer than 3 buckets and 2^30 or more cells *)
Definition ctor_ok (nh nb : N) : bool := (3 <=? nb) && (ncells nh nb <? 1073741824).

Definition zeros (n : N) : list N := repeat 0 (N.to_nat n).

Definition dec_bytes (expected : N) (bytes : list N) : option cm :=
  if (length bytes <? 16)%nat then None else
  do pre <- rd 1 0 bytes; do ver <- rd 1 1 bytes; do fam <- rd 1 2 bytes; do fl <- rd 1 3 bytes;
  if negb (header_ok pre ver fam fl) then None else
  do nb <- rd 4 8 bytes; do nh <- rd 1 12 bytes; do sh <- rd 2 13 bytes;
  if negb (sh =? expected) then None else
  if N.testbit fl 0 then
    if negb (ctor_ok nh nb) then None else
    Some {| c_nh := nh; c_nb := nb; c_seed_hash := sh; c_total := 0; c_cells := zeros (ncells nh nb) |}
  else
    (* repaired: the weight and the table must follow the two preamble longs *)
    if N.of_nat (length bytes) - 16 <? 8 * (1 + nb * nh) then None else
    if negb (ctor_ok nh nb) then None else
    do total <- rd 8 16 bytes;
    do cells <- rd_entries (N.to_nat (ncells nh nb)) (skipn 24 bytes);
    Some {| c_nh := nh; c_nb := nb; c_seed_hash := sh; c_total := total; c_cells := cells |}.

Definition dec_stream (expected : N) (bytes : list N) : option (cm * nat) :=
  do pre <- rd 1 0 bytes; do ver <- rd 1 1 bytes; do fam <- rd 1 2 bytes; do fl <- rd 1 3 bytes;
  do unused <- rd 4 4 bytes;
  if negb (header_ok pre ver fam fl) then None else
  do nb <- rd 4 8 bytes; do nh <- rd 1 12 bytes; do sh <- rd 2 13 bytes; do unused8 <- rd 1 15 bytes;
  if negb (sh =? expected) then None else
  if negb (ctor_ok nh nb) then None else
  if N.testbit fl 0 then
    Some ({| c_nh := nh; c_nb := nb; c_seed_hash := sh; c_total := 0; c_cells := zeros (ncells nh nb) |}, 16%nat)
  else
    do total <- rd 8 16 bytes;
    do cells <- rd_entries (N.to_nat (ncells nh nb)) (skipn 24 bytes);
    Some ({| c_nh := nh; c_nb := nb; c_seed_hash := sh; c_total := total; c_cells := cells |},
          (24 + 8 * N.to_nat (ncells nh nb))%nat).

(* ---- line protocol ----
   op 1 r nh nb seed (item weight)*  : the harness builds the sketch; env = nh nb seed_hash total cells...; R = image bytes
   op 5 r path cut pos val ntrail    : image of r, truncated to cut bytes (cut < 0: whole), byte pos replaced by val (pos < 0: none),
                                       ntrail bytes 0xA5 appended, read through path 0 (bytes) / 1 (stream); env = expected seed hash
   op 3 expected byte*               : explicit image, bytes path;  op 4: stream path
   decoded sketch is shown as 1 [used] nh nb seed_hash total n cells... *)
Local Open Scope Z_scope.

Definition cm_of_env (e : list Z) : option cm :=
  match e with
  | nh :: nb :: sh :: tot :: cells =>
      Some {| c_nh := zN nh; c_nb := zN nb; c_seed_hash := zN sh; c_total := zN tot; c_cells := map zN cells |}
  | _ => None
  end.

Definition show (s : cm) : list Z :=
  [Nz (c_nh s); Nz (c_nb s); Nz (c_seed_hash s); Nz (c_total s); Z.of_nat (length (c_cells s))] ++ map Nz (c_cells s).

Definition set_nth (n : nat) (v : N) (l : list N) : list N := upd_nth n (fun _ => v) l.

Definition mangle (img : list N) (cut pos val ntrail : Z) : list N :=
  let a := if cut <? 0 then img else firstn (Z.to_nat cut) img in
  let b := if pos <? 0 then a else set_nth (Z.to_nat pos) (zN val) a in
  b ++ repeat 165%N (Z.to_nat ntrail).

Definition show_dec (path : Z) (expected : N) (bytes : list N) : list Z :=
  if path =? 0 then
    match dec_bytes expected bytes with Some s => 1 :: show s | None => refused end
  else
    match dec_stream expected bytes with Some (s, used) => 1 :: Z.of_nat used :: show s | None => refused end.

Definition step (st : list (Z * cm)) (o e : line) : list (Z * cm) * outline :=
  match o with
  | 1 :: r :: _ =>
      match cm_of_env e with
      | Some s => (reg_set st r s, (map Nz (enc s), []))
      | None => (st, (refused, []))
      end
  | 5 :: r :: path :: cut :: pos :: val :: ntrail :: _ =>
      match reg_get st r, e with
      | Some s, exp :: _ => (st, (show_dec path (zN exp) (mangle (enc s) cut pos val ntrail), []))
      | _, _ => (st, (refused, []))
      end
  | 3 :: exp :: bytes => (st, (show_dec 0 (zN exp) (map zN bytes), []))
  | 4 :: exp :: bytes => (st, (show_dec 1 (zN exp) (map zN bytes), []))
  | _ => (st, ([-2], []))
  end.

Definition run (ops : list opline) : list outline := run_case step [] ops.
