(* ThetaSetUnion.v — the Theta/Tuple union (theta_union_base) computes the set expression.
   For every sequence of well-formed inputs accepted by the seed check, every nominal size lg_k >= 5, resize factor,
   starting theta (builder p), every payload type and combine policy, and ANY std::nth_element meeting its
   postcondition: get_result returns theta = min(theta0, thetas of the non-empty inputs), lowered to the (k+1)-th
   smallest key of the union below that when more than k keys survive, and exactly the keys of the union below the
   result theta (the k smallest when trimmed); it is empty iff all inputs were, and then theta = MAX ([union_spec];
   code with fixes/02_union_empty_theta.patch).  The union's table is
   the Theta table of C01: each incoming entry that passes the two theta tests is one [ThetaDefs.update], so the
   refinement theorem of C01 ([refine_update], [ainv_step]) gives the table invariant across resize and rebuild;
   the early break on ordered inputs loses nothing because thetas only decrease ([union_loop_spec]).
   Corollaries: the result does not depend on the order of the inputs ([union_perm]) nor on their physical form,
   ordered flag or entry order ([union_form_indep]); reset restores the initial state. *)
From Coq Require Import ZArith NArith List Bool Lia Permutation Sorted Arith.
From DS Require Import Word RunnerLib OpenAddr KSmallest Canon ThetaDefs ThetaProofs ThetaRefine ThetaFacts ThetaSetDefs ThetaSetWf.
Import ListNotations.
Local Open Scope N_scope.

Lemma sortN_perm_eq a b : Permutation a b -> NoDup a -> sortN a = sortN b.
Proof.
  intros Hp Hnd. apply strict_sorted_unique.
  - now apply sortN_strict.
  - apply sortN_strict. eapply Permutation_NoDup; eauto.
  - intros x. rewrite (perm_in_iff x (sortN_perm a)), (perm_in_iff x (sortN_perm b)). now apply perm_in_iff.
Qed.

Lemma strict_head_min (v : list N) p : StronglySorted N.lt v -> In p v -> (forall x, In x v -> p <= x) ->
  exists r, v = p :: r.
Proof.
  intros Hs Hin Hmin. destruct v as [|a r]; [destruct Hin|]. exists r. f_equal.
  destruct Hin as [E|Hin]; auto. inversion Hs; subst. rewrite Forall_forall in H2. specialize (H2 _ Hin).
  specialize (Hmin a (or_introl eq_refl)). lia.
Qed.

Lemma NoDup_filter' {A} (f : A -> bool) l : NoDup l -> NoDup (filter f l).
Proof. induction 1; simpl; [constructor|]. destruct (f x); auto. constructor; auto. rewrite filter_In. tauto. Qed.

(* position k of the sorted list is the element with exactly k smaller ones; the first k are those *)
Lemma pivot_sorted (ks : list N) pk k : NoDup ks -> In pk ks -> length (filter (fun h => h <? pk) ks) = k ->
  nth k (sortN ks) 0 = pk /\ firstn k (sortN ks) = sortN (filter (fun h => h <? pk) ks) /\ (k < length ks)%nat.
Proof.
  intros Hnd Hin Hlen. pose proof (sortN_strict ks Hnd) as Hs. set (W := sortN ks) in *.
  pose proof (strict_split W pk Hs) as Hsplit.
  set (A := filter (fun h => h <? pk) W) in *. set (B := filter (fun h => pk <=? h) W) in *.
  assert (HA : A = sortN (filter (fun h => h <? pk) ks)).
  { apply strict_sorted_unique.
    - apply filter_strict, Hs.
    - apply sortN_strict, NoDup_filter', Hnd.
    - intros x. unfold A. rewrite filter_In. unfold W. rewrite (perm_in_iff x (sortN_perm ks)).
      rewrite (perm_in_iff x (sortN_perm _)), filter_In. tauto. }
  assert (HlenA : length A = k).
  { rewrite HA, (Permutation_length (sortN_perm _)). exact Hlen. }
  destruct (strict_head_min B pk) as [rest HB].
  - apply filter_strict, Hs.
  - unfold B. rewrite filter_In. split; [|apply N.leb_le; lia]. unfold W. now rewrite (perm_in_iff pk (sortN_perm ks)).
  - intros x Hx. unfold B in Hx. rewrite filter_In in Hx. destruct Hx as [_ Hx]. now apply N.leb_le in Hx.
  - rewrite Hsplit, HB. split; [|split].
    + rewrite app_nth2 by lia. rewrite HlenA, Nat.sub_diag. reflexivity.
    + rewrite firstn_app, HlenA, Nat.sub_diag. simpl. rewrite app_nil_r. rewrite <- HlenA, firstn_all. exact HA.
    + rewrite <- (Permutation_length (sortN_perm ks)). fold W. rewrite Hsplit, HB, app_length. simpl. lia.
Qed.

Lemma prefix_nth (W Z : list N) k : (k < length W)%nat ->
  nth k (W ++ Z) 0 = nth k W 0 /\ firstn k (W ++ Z) = firstn k W.
Proof.
  intros H. split; [now apply app_nth1|]. rewrite firstn_app. replace (k - length W)%nat with 0%nat by lia.
  simpl. now rewrite app_nil_r.
Qed.

Lemma map_fst_filter {S} (f : N -> bool) (l : list (N * S)) :
  map fst (filter (fun e => f (fst e)) l) = filter f (map fst l).
Proof. induction l as [|a l IH]; simpl; auto. destruct (f (fst a)); simpl; now rewrite IH. Qed.

Definition nilb {A} (l : list A) : bool := match l with [] => true | _ => false end.

Section Union.
  Variable S : Type.
  Variable sel : nat -> list (N * S) -> list (N * S).
  Hypothesis sel_ok : forall k l, (k < length l)%nat -> nth_post fst k l (sel k l).
  Variable comb : S -> S -> S.
  Variables lgk r th0 sh : N.
  Hypothesis lgk_ge : 5 <= lgk.

  Notation TInv := (TInv S lgk r th0).
  Notation AInv := (AInv S lgk th0).
  Notation input := (input S).

  (* the table holds exactly the offered hashes below its theta *)
  Record KInv (t : sketch S) (seen : list N) : Prop := {
    ki_nodup : NoDup (keys S t);
    ki_set : forall h, In h (keys S t) <-> In h seen /\ 0 < h < theta t;
    ki_le : theta t <= th0;
    ki_src : theta t = th0 \/ In (theta t) seen;
    ki_k : theta t < th0 -> 2 ^ lgk <= N.of_nat (length (entries S t));
    ki_pos : theta t < th0 -> 0 < theta t
  }.

  Definition absn (t : sketch S) (seen : list N) : astate S := mkA (lg_cur t) (theta t) (nilb seen) (entries S t).

  Lemma kinv_ainv t seen : KInv t seen <-> AInv (absn t seen) seen.
  Proof.
    split.
    - intros [H1 H2 H3 H4 H5 H6]. constructor; unfold absn, akeys; cbn [a_lgc a_theta a_empty a_ents]; auto.
      destruct seen; simpl; split; intros; congruence.
    - intros [H1 H2 H3 H4 H5 H6 H7]. unfold absn, akeys in *. cbn [a_lgc a_theta a_empty a_ents] in *.
      constructor; auto.
  Qed.

  (* the emptiness flag of the source state plays no role in an update step *)
  Lemma a_step_flag a h64 f a' e : a_step S lgk r th0 a (OpUpdate h64 f) a' ->
    a_step S lgk r th0 (mkA (a_lgc a) (a_theta a) e (a_ents a)) (OpUpdate h64 f) a'.
  Proof.
    intros H. inversion H; subst.
    - apply (AS_screened S lgk r th0 (mkA (a_lgc a) (a_theta a) e (a_ents a)) h64 f (h64 / 2)); auto.
    - apply (AS_present S lgk r th0 (mkA (a_lgc a) (a_theta a) e (a_ents a)) h64 f (h64 / 2)); auto.
    - apply (AS_insert_fits S lgk r th0 (mkA (a_lgc a) (a_theta a) e (a_ents a)) h64 f (h64 / 2)); auto.
    - apply (AS_insert_resize S lgk r th0 (mkA (a_lgc a) (a_theta a) e (a_ents a)) h64 f (h64 / 2)); auto.
    - apply (AS_insert_rebuild S lgk r th0 (mkA (a_lgc a) (a_theta a) e (a_ents a)) h64 f (h64 / 2) ents1); auto.
  Qed.

  Lemma kinv_update t seen h f : TInv t -> KInv t seen -> let t' := update S sel t h f in
    TInv t' /\ KInv t' (h :: seen) /\ theta t' <= theta t /\ is_empty t' = false.
  Proof.
    intros HT HK t'. pose proof (ki_nodup _ _ HK) as Hnd.
    destruct (refine_update S sel sel_ok lgk r th0 lgk_ge t (2 * h) f HT Hnd) as [Hst HT'].
    assert (E : 2 * h / 2 = h) by (rewrite N.mul_comm; apply N.div_mul; lia).
    rewrite E in Hst, HT'. fold t' in Hst, HT'.
    apply (a_step_flag _ _ _ _ (nilb seen)) in Hst. change (mkA _ _ _ _) with (absn t seen) in Hst.
    apply kinv_ainv in HK.
    pose proof (ainv_step S lgk r th0 _ _ _ _ HK Hst) as HA'. cbn [seen_step] in HA'. rewrite E in HA'.
    pose proof (a_theta_monotone S lgk r th0 _ _ _ _ HK Hst) as Hm.
    split; [exact HT'|]. split; [|split].
    - apply kinv_ainv. destruct HA' as [H1 H2 H3 H4 H5 H6 H7]. unfold ThetaProofs.abs, akeys in *.
      cbn [a_lgc a_theta a_empty a_ents] in *. constructor; unfold absn, akeys; cbn [a_lgc a_theta a_empty a_ents nilb]; auto.
      split; discriminate.
    - apply Hm. discriminate.
    - destruct HA' as [_ _ _ _ _ H6 _]. unfold ThetaProofs.abs in H6. cbn [a_empty] in H6.
      destruct (is_empty t'); auto. destruct H6 as [H6 _]. specialize (H6 eq_refl). discriminate.
  Qed.

  Lemma tinv_set_nonempty t : TInv t -> TInv (set_nonempty S t).
  Proof. intros [H1 H2 H3 H4 H5 H6 H7]. constructor; auto. Qed.

  Lemma kinv_set_nonempty t seen : KInv t seen -> KInv (set_nonempty S t) seen.
  Proof. intros [H1 H2 H3 H4 H5 H6]. constructor; auto. Qed.

  (* ---- the loop over the incoming entries ---- *)
  Lemma union_loop_spec ut ordered l : forall t seen, TInv t -> KInv t seen ->
    (ordered = true -> StronglySorted (klt fst) l) ->
    let t' := union_loop S sel comb ut ordered t l in
    exists seen', TInv t' /\ KInv t' seen' /\ theta t' <= theta t /\
      (is_empty t = false -> is_empty t' = false) /\
      (forall h, In h seen' -> In h seen \/ In h (map fst l)) /\
      (forall h, In h seen -> In h seen') /\
      (forall h, In h (map fst l) -> h < ut -> h < theta t' -> In h seen').
  Proof.
    induction l as [|[h w] l IH]; intros t seen HT HK Hsort; simpl.
    - exists seen. split; [exact HT|]. split; [exact HK|]. split; [lia|]. split; [auto|]. split; [auto|]. split; [auto|]. intros h [].
    - assert (Hsort' : ordered = true -> StronglySorted (klt fst) l).
      { intros Ho. specialize (Hsort Ho). now inversion Hsort. }
      destruct ((h <? ut) && (h <? theta t)) eqn:Etest.
      + destruct (kinv_update t seen h (pay S comb w) HT HK) as (HT1 & HK1 & Hle1 & He1).
        destruct (IH _ _ HT1 HK1 Hsort') as (seen' & HT' & HK' & Hle' & He' & Hsub & Hsup & Hall).
        exists seen'. split; [exact HT'|]. split; [exact HK'|]. split; [lia|]. split; [auto|]. split; [|split].
        * intros x Hx. destruct (Hsub x Hx) as [[<-|Hs]|Hl]; simpl; auto.
        * intros x Hx. apply Hsup. simpl. auto.
        * intros x [<-|Hx] H1 H2; [apply Hsup; simpl; auto|apply Hall; auto].
      + destruct ordered.
        * exists seen. split; [exact HT|]. split; [exact HK|]. split; [lia|]. split; [auto|]. split; [auto|]. split; [auto|].
          intros x Hx H1 H2. exfalso.
          assert (Hge : ut <= h \/ theta t <= h).
          { apply andb_false_iff in Etest. destruct Etest as [E|E]; apply N.ltb_ge in E; auto. }
          destruct Hx as [<-|Hx]; [lia|].
          specialize (Hsort eq_refl). inversion Hsort as [|a b Hs Hf]; subst. rewrite Forall_forall in Hf.
          apply in_map_iff in Hx. destruct Hx as (e & <- & He). specialize (Hf e He). unfold klt in Hf. simpl in Hf. lia.
        * destruct (IH _ _ HT HK Hsort') as (seen' & HT' & HK' & Hle' & He' & Hsub & Hsup & Hall).
          exists seen'. split; [exact HT'|]. split; [exact HK'|]. split; [lia|]. split; [auto|]. split; [|split; [auto|]].
          -- intros x Hx. destruct (Hsub x Hx); simpl; auto.
          -- intros x [<-|Hx] H1 H2; [|apply Hall; auto]. exfalso.
             apply andb_false_iff in Etest. destruct Etest as [E|E]; apply N.ltb_ge in E; lia.
  Qed.

  (* ---- the union object after a sequence of inputs ---- *)
  Record UInv (u : union_st S) (ins : list input) (seen : list N) : Prop := {
    ui_t : TInv (u_table u);
    ui_k : KInv (u_table u) seen;
    ui_sh : u_sh u = sh;
    ui_seen : forall h, In h seen -> In h (all_keys S ins);
    ui_all : forall h, In h (all_keys S ins) -> h < u_theta u -> In h seen;
    ui_theta : u_theta u = N.min (min_theta S th0 ins) (theta (u_table u));
    ui_empty : is_empty (u_table u) = forallb in_empty ins
  }.

  Lemma uinv_new : UInv (union_new S lgk r th0 sh) [] [].
  Proof.
    destruct (tinv_new S lgk r th0 lgk_ge) as [HT Habs]. unfold union_new.
    constructor; cbn [u_table u_theta u_sh]; auto.
    - constructor; unfold keys, entries, new_sketch; cbn [slots theta]; rewrite ?occupied_repeat_None; simpl; try lia; auto; try tauto.
      constructor.
    - unfold new_sketch. cbn [theta]. simpl. lia.
  Qed.

  Lemma forallb_snoc {A} (f : A -> bool) l x : forallb f (l ++ [x]) = forallb f l && f x.
  Proof. rewrite forallb_app. simpl. now rewrite andb_true_r. Qed.

  Lemma uinv_update u ins seen i : UInv u ins seen -> wf i -> seed_ok sh i ->
    exists u' seen', union_update S sel comb u i = Some u' /\ UInv u' (ins ++ [i]) seen'.
  Proof.
    intros [HT HK Hsh Hseen Hall Hth Hemp] Hwf Hseed. unfold union_update.
    destruct (in_empty i) eqn:Ee.
    - (* an empty input changes nothing *)
      exists u, seen. split; auto. destruct (wf_empty _ _ Hwf Ee) as [Hnil _].
      assert (Hk : all_keys S (ins ++ [i]) = all_keys S ins).
      { rewrite all_keys_app. unfold all_keys at 2. simpl. unfold in_keys. rewrite Hnil. simpl. now rewrite app_nil_r. }
      constructor; auto.
      + now rewrite Hk.
      + now rewrite Hk.
      + rewrite min_theta_app. simpl. rewrite Ee. exact Hth.
      + rewrite forallb_snoc, Ee, andb_true_r. exact Hemp.
    - destruct Hseed as [Hc|Hs]; [congruence|]. rewrite Hs, Hsh, N.eqb_refl. simpl.
      set (ut := N.min (u_theta u) (in_theta i)).
      destruct (union_loop_spec ut (in_ordered i) (in_entries i) (set_nonempty S (u_table u)) seen
                  (tinv_set_nonempty _ HT) (kinv_set_nonempty _ _ HK) (wf_sorted _ _ Hwf))
        as (seen' & HT' & HK' & Hle' & He' & Hsub & Hsup & Hloop).
      set (t' := union_loop S sel comb ut (in_ordered i) (set_nonempty S (u_table u)) (in_entries i)) in *.
      cbn [theta set_nonempty] in Hle'.
      exists (mk_union S t' (N.min ut (theta t')) sh), seen'. split; auto.
      assert (Hk : forall h, In h (all_keys S (ins ++ [i])) <-> In h (all_keys S ins) \/ In h (in_keys i)).
      { intros h. rewrite all_keys_app, in_app_iff. unfold all_keys at 2. simpl. now rewrite app_nil_r. }
      constructor; cbn [u_table u_theta u_sh]; auto.
      + intros h Hh. apply Hk. destruct (Hsub h Hh); auto.
      + intros h Hh Hlt. apply Hk in Hh. destruct Hh as [Hh|Hh].
        * apply Hsup, Hall; auto. unfold ut in Hlt. lia.
        * apply Hloop; auto; lia.
      + rewrite min_theta_app. simpl. rewrite Ee. unfold ut. rewrite Hth. lia.
      + rewrite forallb_snoc, Ee, andb_false_r. apply He'. reflexivity.
  Qed.

  Definition union_fold (u0 : union_st S) (ins : list input) : option (union_st S) :=
    fold_left (fun ou i => match ou with Some u => union_update S sel comb u i | None => None end) ins (Some u0).

  Lemma union_fold_snoc u0 ins i : union_fold u0 (ins ++ [i]) =
    match union_fold u0 ins with Some u => union_update S sel comb u i | None => None end.
  Proof. unfold union_fold. now rewrite fold_left_app. Qed.

  Theorem union_reach ins : Forall wf ins -> Forall (seed_ok sh) ins ->
    exists u seen, union_fold (union_new S lgk r th0 sh) ins = Some u /\ UInv u ins seen.
  Proof.
    induction ins as [|i ins IH] using rev_ind; intros Hwf Hseed.
    - exists (union_new S lgk r th0 sh), []. split; auto. apply uinv_new.
    - apply Forall_app in Hwf. destruct Hwf as [Hwf Hi]. inversion Hi; subst.
      apply Forall_app in Hseed. destruct Hseed as [Hseed Hsi]. inversion Hsi; subst.
      destruct (IH Hwf Hseed) as (u & seen & Hf & HU).
      destruct (uinv_update u ins seen i HU) as (u' & seen' & Hu' & HU'); auto.
      exists u', seen'. split; auto. rewrite union_fold_snoc, Hf. exact Hu'.
  Qed.

  (* ---- get_result ---- *)
  Lemma all_keys_all_empty (ins : list input) : Forall wf ins -> forallb in_empty ins = true -> all_keys S ins = [].
  Proof.
    induction 1 as [|i ins Hi _ IH]; simpl; auto. intros H. apply andb_true_iff in H. destruct H as [He Hr].
    unfold all_keys in *. simpl. rewrite (IH Hr). destruct (wf_empty _ _ Hi He) as [Hnil _]. unfold in_keys. now rewrite Hnil.
  Qed.

  Lemma min_theta_all_empty (ins : list input) m : forallb in_empty ins = true -> min_theta S m ins = m.
  Proof.
    revert m. induction ins as [|i ins IH]; intros m; simpl; auto. intros H. apply andb_true_iff in H.
    destruct H as [He Hr]. rewrite He. now apply IH.
  Qed.

  Lemma all_keys_pos (ins : list input) h : Forall wf ins -> In h (all_keys S ins) -> 0 < h.
  Proof.
    intros Hwf Hin. apply in_all_keys in Hin. destruct Hin as (i & Hi & Hh). rewrite Forall_forall in Hwf.
    apply (wf_range _ _ (Hwf i Hi)) in Hh. lia.
  Qed.

  Theorem union_result_spec u ins seen ordered : UInv u ins seen -> Forall wf ins ->
    let res := union_result S sel u ordered in
    (in_theta res, in_empty res, sortN (in_keys res)) = spec_union S (N.to_nat (2 ^ lgk)) th0 ins /\
    NoDup (in_keys res) /\ (forall h, In h (in_keys res) -> 0 < h < in_theta res) /\
    in_seed_hash res = sh /\
    (ordered = true -> in_ordered res = true /\ StronglySorted (klt fst) (in_entries res)).
  Proof.
    intros [HT HK Hsh Hseen Hall Hth Hemp] Hwf. unfold union_result, union_result_gen.
    set (t := u_table u) in *. set (U := u_theta u) in *.
    set (thm := min_theta S th0 ins) in *.
    unfold spec_union. fold thm. set (V := keys_below thm (all_keys S ins)).
    destruct (is_empty t) eqn:Ee.
    - (* no non-empty input so far *)
      symmetry in Hemp. pose proof (all_keys_all_empty ins Hwf Hemp) as Hnil.
      assert (Hs : seen = []).
      { destruct seen as [|x s]; auto. exfalso. specialize (Hseen x (or_introl eq_refl)). rewrite Hnil in Hseen. destruct Hseen. }
      assert (Htt : theta t = th0).
      { destruct (ki_src _ _ HK) as [E|Hin]; auto. rewrite Hs in Hin. destruct Hin. }
      rewrite Hemp.
      unfold mk_result, in_keys. cbn [in_theta in_empty in_entries in_seed_hash in_ordered map length].
      split; [reflexivity|]. split; [constructor|]. split; [intros h []|]. split; [exact Hsh|].
      intros _. split; [reflexivity|constructor].
    - (* at least one non-empty input *)
      assert (HUle : U <= theta t) by (rewrite Hth; lia).
      assert (HUm : U <= thm) by (rewrite Hth; lia).
      rewrite (N.min_l U (theta t)) by exact HUle.
      set (ents := if theta t <=? U then entries S t else filter (fun e => fst e <? U) (entries S t)).
      assert (Hents : ents = filter (fun e => fst e <? U) (entries S t)).
      { unfold ents. destruct (N.leb_spec (theta t) U) as [Hc|Hc]; auto. symmetry. apply filter_all_true.
        apply Forall_forall. intros e He. apply N.ltb_lt.
        assert (Hk : In (fst e) (keys S t)) by (unfold keys; now apply in_map).
        apply (ki_set _ _ HK) in Hk. lia. }
      assert (Hndk : NoDup (map fst ents)) by (rewrite Hents; apply NoDup_map_filter, (ki_nodup _ _ HK)).
      assert (Hmem : forall h, In h (map fst ents) <-> In h (all_keys S ins) /\ h < U).
      { intros h. rewrite Hents, in_keys_filter_lt. fold (keys S t). rewrite (ki_set _ _ HK). split.
        - intros [[Hs _] Hlt]. split; auto.
        - intros [Hin Hlt]. pose proof (all_keys_pos ins h Hwf Hin). repeat split; auto; lia. }
      set (W := keys_below U (all_keys S ins)).
      assert (HW : sortN (map fst ents) = W) by (apply sortN_keys_unique; auto).
      assert (HlenW : length W = length ents).
      { rewrite <- HW, (Permutation_length (sortN_perm _)). apply map_length. }
      assert (HWV : W = filter (fun h => h <? U) V) by (apply keys_below_lower; exact HUm).
      pose proof (strict_split V U (keys_below_strict _ _)) as HVsplit. rewrite <- HWV in HVsplit.
      set (Z := filter (fun h => U <=? h) V) in *.
      assert (Hkn : knom S t = N.to_nat (2 ^ lgk)) by (unfold knom; now rewrite (ti_lgn _ _ _ _ _ HT)).
      rewrite Hkn. set (k := N.to_nat (2 ^ lgk)) in *.
      (* the result before the optional sort *)
      set (l' := sel k ents).
      set (th' := if (k <? length ents)%nat then match nth_error l' k with Some p => fst p | None => U end else U).
      set (ents' := if (k <? length ents)%nat then firstn k l' else ents).
      assert (Hmain : (th', sortN (map fst ents')) = (if (k <? length V)%nat then (nth k V 0, firstn k V) else (thm, V)) /\
                      NoDup (map fst ents') /\ (forall h, In h (map fst ents') -> 0 < h < th')).
      { unfold th', ents'. destruct (Nat.ltb_spec k (length ents)) as [Hk|Hk].
        - (* more than k entries: nth_element at k, theta := that key, keep the k in front *)
          destruct (sel_ok k ents Hk) as (Hperm & pre & p & post & Heq & Hlen & Hpre & Hpost). fold l' in Hperm, Heq.
          destruct (split_at _ l' pre p post Heq) as [Hnth Hfirst]. rewrite Hlen in Hnth, Hfirst. rewrite Hnth, Hfirst.
          destruct (nth_post_filter _ fst ents l' pre p post Hndk Hperm Heq Hpre Hpost) as (Hpf & Hpin & _).
          assert (Hkp : Permutation (map fst pre) (filter (fun h => h <? fst p) (map fst ents))).
          { rewrite <- (map_fst_filter (fun h => h <? fst p)). now apply Permutation_map. }
          assert (Hndpre : NoDup (map fst pre)).
          { eapply Permutation_NoDup; [symmetry; exact Hkp|]. now apply NoDup_filter'. }
          destruct (pivot_sorted (map fst ents) (fst p) k Hndk) as (Hn & Hf & _).
          { now apply in_map. }
          { rewrite <- (Permutation_length Hkp), map_length. exact Hlen. }
          rewrite HW in Hn, Hf.
          assert (HkW : (k < length W)%nat) by lia.
          destruct (prefix_nth W Z k HkW) as [Hn2 Hf2]. rewrite <- HVsplit in Hn2, Hf2.
          assert (HkV : (k < length V)%nat) by (rewrite HVsplit, app_length; lia).
          apply Nat.ltb_lt in HkV. rewrite HkV. split; [|split].
          + rewrite Hn2, Hf2, Hn, Hf. f_equal. now apply sortN_perm_eq.
          + exact Hndpre.
          + intros h Hh. apply (Permutation_in _ Hkp) in Hh. apply filter_In in Hh. destruct Hh as [Hh Hlt].
            apply N.ltb_lt in Hlt. apply Hmem in Hh. destruct Hh as [Hh _]. pose proof (all_keys_pos ins h Hwf Hh). lia.
        - (* at most k entries: nothing to trim *)
          split; [|split; [exact Hndk|]].
          2: { intros h Hh. apply Hmem in Hh. destruct Hh as [Hh Hlt]. pose proof (all_keys_pos ins h Hwf Hh). lia. }
          rewrite HW. destruct (N.eq_dec U thm) as [E|Hne].
          + (* the table's theta is not below the inputs' minimum: W = V *)
            assert (HVW : V = W) by (unfold V, W; now rewrite E).
            rewrite HVW, HlenW. replace (k <? length ents)%nat with false by (symmetry; apply Nat.ltb_ge; lia).
            now rewrite E.
          + (* the table was rebuilt below the inputs' minimum: exactly k entries, theta = the (k+1)-th key *)
            assert (HUt : U = theta t) by (rewrite Hth in *; lia).
            assert (Hlt0 : theta t < th0) by (pose proof (min_theta_le S th0 ins); fold thm in H; lia).
            pose proof (ki_k _ _ HK Hlt0) as Hk2.
            assert (Hall_lt : ents = entries S t).
            { rewrite Hents. apply filter_all_true. apply Forall_forall. intros e He. apply N.ltb_lt.
              assert (Hk3 : In (fst e) (keys S t)) by (unfold keys; now apply in_map).
              apply (ki_set _ _ HK) in Hk3. lia. }
            assert (Hkeq : length ents = k) by (rewrite Hall_lt in *; unfold k; lia).
            assert (HUin : In U V).
            { unfold V. apply in_keys_below. split; [|lia]. apply Hseen. rewrite HUt.
              destruct (ki_src _ _ HK) as [E|Hin]; auto. lia. }
            destruct (strict_head_min Z U) as [rest HZ].
            { apply filter_strict, keys_below_strict. }
            { unfold Z. apply filter_In. split; auto. apply N.leb_le. lia. }
            { intros x Hx. unfold Z in Hx. apply filter_In in Hx. destruct Hx as [_ Hx]. now apply N.leb_le in Hx. }
            assert (HkV : (k < length V)%nat) by (rewrite HVsplit, HZ, app_length; simpl; lia).
            apply Nat.ltb_lt in HkV. rewrite HkV. rewrite HVsplit, HZ. f_equal.
            * rewrite app_nth2 by lia. rewrite HlenW, Hkeq, Nat.sub_diag. reflexivity.
            * rewrite firstn_app, HlenW, Hkeq, Nat.sub_diag. simpl. rewrite app_nil_r.
              rewrite <- Hkeq, <- HlenW. now rewrite firstn_all. }
      destruct Hmain as (Hspec & Hnd' & Hrange').
      set (out := if ordered then msort fst ents' else ents').
      assert (Hpo : Permutation out ents') by (unfold out; destruct ordered; [apply msort_perm|reflexivity]).
      assert (Hpk : Permutation (map fst out) (map fst ents')) by (now apply Permutation_map).
      unfold mk_result, in_keys. cbn [in_theta in_empty in_entries in_seed_hash in_ordered].
      assert (Hemp' : forallb in_empty ins = false) by congruence. rewrite Hemp'.
      split; [|split; [|split; [|split]]].
      + rewrite (sortN_perm_eq _ _ Hpk) by (eapply Permutation_NoDup; [symmetry; exact Hpk|exact Hnd']).
        destruct (k <? length V)%nat; inversion Hspec; subst; reflexivity.
      + eapply Permutation_NoDup; [symmetry; exact Hpk|exact Hnd'].
      + intros h Hh. apply Hrange'. now apply (Permutation_in _ Hpk).
      + exact Hsh.
      + intros ->. split; [reflexivity|]. unfold out. apply msort_strict. exact Hnd'.
  Qed.

  (* ---- the union of any sequence of well-formed inputs is the set expression ---- *)
  Theorem union_spec ins : Forall wf ins -> Forall (seed_ok sh) ins ->
    exists u, union_fold (union_new S lgk r th0 sh) ins = Some u /\
      forall ordered, let res := union_result S sel u ordered in
        (in_theta res, in_empty res, sortN (in_keys res)) = spec_union S (N.to_nat (2 ^ lgk)) th0 ins /\
        NoDup (in_keys res) /\ (forall h, In h (in_keys res) -> 0 < h < in_theta res) /\
        in_seed_hash res = sh /\
        (ordered = true -> in_ordered res = true /\ StronglySorted (klt fst) (in_entries res)).
  Proof.
    intros Hwf Hseed. destruct (union_reach ins Hwf Hseed) as (u & seen & Hf & HU).
    exists u. split; auto. intros ordered. apply (union_result_spec u ins seen ordered HU Hwf).
  Qed.

  (* reset() brings the object back to its initial state *)
  Lemma union_reset_new u ins seen : UInv u ins seen -> union_reset S u = union_new S lgk r th0 sh.
  Proof.
    intros [HT _ Hsh _ _ _ _]. destruct HT as [H1 H2 H3 _ _ _ _]. unfold union_reset, union_new, reset.
    now rewrite H1, H2, H3, Hsh.
  Qed.

  (* a non-empty sketch built with another seed is refused and nothing changes *)
  Lemma union_seed_refused u i : in_empty i = false -> in_seed_hash i <> u_sh u -> union_update S sel comb u i = None.
  Proof.
    intros He Hs. unfold union_update. rewrite He. apply N.eqb_neq in Hs. now rewrite Hs.
  Qed.
End Union.

(* ---- the specification does not depend on the order or the physical form of the inputs ---- *)
Section SpecUnion.
  Variable S : Type.
  Notation input := (input S).

  Lemma forallb_perm {A} (f : A -> bool) a b : Permutation a b -> forallb f a = forallb f b.
  Proof.
    induction 1; simpl; auto.
    - now rewrite IHPermutation.
    - destruct (f x), (f y); auto.
    - congruence.
  Qed.

  Lemma all_keys_perm (a b : list input) h : Permutation a b -> (In h (all_keys S a) <-> In h (all_keys S b)).
  Proof.
    intros Hp. rewrite !in_all_keys. split; intros (i & Hi & Hh); exists i; split; auto.
    - eapply Permutation_in; eauto.
    - eapply Permutation_in; [symmetry; exact Hp|auto].
  Qed.

  Theorem spec_union_perm k th0 (a b : list input) : Permutation a b -> spec_union S k th0 a = spec_union S k th0 b.
  Proof.
    intros Hp. unfold spec_union. rewrite (min_theta_perm S th0 a b Hp), (forallb_perm _ a b Hp).
    rewrite (keys_below_ext _ (all_keys S a) (all_keys S b)); auto. intros h _. now apply all_keys_perm.
  Qed.

  Lemma same_sample_min_theta (a b : list input) : Forall2 same_sample a b -> forall m, min_theta S m a = min_theta S m b.
  Proof.
    induction 1 as [|i j a b (Ht & He & _) _ IH]; intros m; simpl; auto. rewrite He, Ht. apply IH.
  Qed.

  Lemma same_sample_forallb (a b : list input) : Forall2 same_sample a b -> forallb in_empty a = forallb in_empty b.
  Proof. induction 1 as [|i j a b (_ & He & _) _ IH]; simpl; auto. now rewrite He, IH. Qed.

  Lemma same_sample_keys (a b : list input) h : Forall2 same_sample a b -> (In h (all_keys S a) <-> In h (all_keys S b)).
  Proof.
    induction 1 as [|i j a b (_ & _ & Hk) _ IH]; simpl; [tauto|].
    unfold all_keys in *. simpl. rewrite !in_app_iff, IH, (Hk h). tauto.
  Qed.

  Theorem spec_union_form_indep k th0 (a b : list input) : Forall2 same_sample a b ->
    spec_union S k th0 a = spec_union S k th0 b.
  Proof.
    intros H. unfold spec_union. rewrite (same_sample_min_theta a b H), (same_sample_forallb a b H).
    rewrite (keys_below_ext _ (all_keys S a) (all_keys S b)); auto. intros h _. now apply same_sample_keys.
  Qed.
End SpecUnion.

Section UnionCorollaries.
  Variable S : Type.
  Variable sel : nat -> list (N * S) -> list (N * S).
  Hypothesis sel_ok : forall k l, (k < length l)%nat -> nth_post fst k l (sel k l).
  Variable comb : S -> S -> S.
  Variables lgk r th0 sh : N.
  Hypothesis lgk_ge : 5 <= lgk.
  Notation input := (input S).
  Notation obs res := (in_theta res, in_empty res, sortN (in_keys res)).
  Notation ufold := (union_fold S sel comb (union_new S lgk r th0 sh)).

  (* two input sequences with the same specification give the same observable result, whatever the two
     get_result calls ask for *)
  Lemma union_same_spec (a b : list input) : Forall wf a -> Forall (seed_ok sh) a -> Forall wf b -> Forall (seed_ok sh) b ->
    spec_union S (N.to_nat (2 ^ lgk)) th0 a = spec_union S (N.to_nat (2 ^ lgk)) th0 b ->
    exists ua ub, ufold a = Some ua /\ ufold b = Some ub /\
      forall o o', obs (union_result S sel ua o) = obs (union_result S sel ub o').
  Proof.
    intros Hwa Hsa Hwb Hsb Hspec.
    destruct (union_spec S sel sel_ok comb lgk r th0 sh lgk_ge a Hwa Hsa) as (ua & Hfa & Ha).
    destruct (union_spec S sel sel_ok comb lgk r th0 sh lgk_ge b Hwb Hsb) as (ub & Hfb & Hb).
    exists ua, ub. split; auto. split; auto. intros o o'.
    destruct (Ha o) as [Ea _]. destruct (Hb o') as [Eb _]. cbv zeta in Ea, Eb. rewrite Ea, Eb. exact Hspec.
  Qed.

  Theorem union_perm (a b : list input) : Permutation a b -> Forall wf a -> Forall (seed_ok sh) a ->
    exists ua ub, ufold a = Some ua /\ ufold b = Some ub /\
      forall o o', obs (union_result S sel ua o) = obs (union_result S sel ub o').
  Proof.
    intros Hp Hwa Hsa. apply union_same_spec; auto.
    - eapply Permutation_Forall; eauto.
    - eapply Permutation_Forall; eauto.
    - now apply spec_union_perm.
  Qed.

  Theorem union_form_indep (a b : list input) : Forall2 same_sample a b ->
    Forall wf a -> Forall (seed_ok sh) a -> Forall wf b -> Forall (seed_ok sh) b ->
    exists ua ub, ufold a = Some ua /\ ufold b = Some ub /\
      forall o o', obs (union_result S sel ua o) = obs (union_result S sel ub o').
  Proof. intros H Hwa Hsa Hwb Hsb. apply union_same_spec; auto. now apply spec_union_form_indep. Qed.
End UnionCorollaries.
