(* TupleUnionProofs.v — union of tuple sketches (model: TupleDefs.v union_update / union_result).
   The union's hash table is the Theta table of ThetaDefs.v and every scanned entry that passes the screen is one
   [update] of it, so the table is [run_ops] of the list of updates performed ([uinv_step]): the theorems of C01
   (table invariant, keys below theta, theta monotone) and the payload theorem TupleProofs.run_pay apply to it.
   Result ([union_summary]): every key of a union result is held by at least one non-empty input, and its summary is
   the first such input's summary (stored as it came) combined, by the policy, with the summaries of the later inputs
   holding the key, in presentation order — each exactly once, whatever resize / rebuild / early stops happened. *)
From Coq Require Import ZArith NArith List Bool Lia Permutation Sorted Arith.
From DS Require Import Word RunnerLib OpenAddr KSmallest Canon ThetaDefs ThetaProofs ThetaRefine ThetaFacts TupleDefs
  TupleProofs TupleSetProofs.
Import ListNotations.
Local Open Scope N_scope.

Section UnionFacts.
  Variable S : Type.
  Variable sel : nat -> list (N * S) -> list (N * S).
  Hypothesis sel_ok : forall k l, (k < length l)%nat -> nth_post fst k l (sel k l).
  Variable comb : S -> S -> S.
  Variables lgn r th0 : N.
  Hypothesis lgn_ge : 5 <= lgn.
  Notation compact := (compact S).
  Notation cwf := (cwf S).
  Notation lookup := (lookup S).
  Notation run := (run_ops S sel lgn r th0).
  Notation comb_f := (comb_f S comb).

  (* the table operation performed for a scanned entry *)
  Definition uop (h : N) (v : S) : op S := OpUpdate (2 * h) (comb_f v).

  Lemma half_double h : 2 * h / 2 = h.
  Proof. rewrite N.mul_comm. apply N.div_mul. discriminate. Qed.

  Lemma update_is_step t h v : update S sel t h (comb_f v) = step_op S sel t (uop h v).
  Proof. unfold uop. cbn [step_op]. now rewrite half_double. Qed.

  (* equal except for the is_empty flag *)
  Definition same_tab (t t' : sketch S) : Prop :=
    lg_cur t = lg_cur t' /\ lg_nom t = lg_nom t' /\ rf t = rf t' /\ theta0 t = theta0 t' /\ theta t = theta t' /\
    num t = num t' /\ slots t = slots t'.

  Lemma same_tab_refl t : same_tab t t.
  Proof. unfold same_tab. tauto. Qed.

  Lemma same_tab_nonempty t : same_tab (set_nonempty S t) t.
  Proof. unfold same_tab. simpl. tauto. Qed.

  Lemma same_tab_trans a b c : same_tab a b -> same_tab b c -> same_tab a c.
  Proof. unfold same_tab. intuition congruence. Qed.

  (* update forgets the flag *)
  Lemma update_same_tab t t' h f : same_tab t t' -> update S sel t h f = update S sel t' h f.
  Proof.
    destruct t, t'. unfold same_tab. simpl. intros (-> & -> & -> & -> & -> & -> & ->). reflexivity.
  Qed.

  (* the updates performed by the loop over the entries of one input *)
  Fixpoint scan_ops (ordered : bool) (ut : N) (t : sketch S) (l : list (N * S)) : list (op S) :=
    match l with
    | [] => []
    | (h, v) :: r0 =>
        if (h <? ut) && (h <? theta t) then uop h v :: scan_ops ordered ut (update S sel t h (comb_f v)) r0
        else if ordered then [] else scan_ops ordered ut t r0
    end.

  Lemma union_scan_ops o ut l : forall t,
    union_scan S sel comb o ut t l = fold_left (step_op S sel) (scan_ops o ut t l) t.
  Proof.
    induction l as [|[h v] l IH]; intros t; simpl; [reflexivity|].
    destruct ((h <? ut) && (h <? theta t)).
    - rewrite IH. cbn [fold_left]. now rewrite <- update_is_step.
    - destruct o; [reflexivity|apply IH].
  Qed.

  Lemma scan_ops_no_reset o ut l : forall t, no_reset S (scan_ops o ut t l).
  Proof.
    induction l as [|[h v] l IH]; intros t; simpl; [constructor|].
    destruct ((h <? ut) && (h <? theta t)).
    - constructor; [discriminate|apply IH].
    - destruct o; [constructor|apply IH].
  Qed.

  Lemma run_app ops ops2 : run (ops ++ ops2) = fold_left (step_op S sel) ops2 (run ops).
  Proof. unfold run_ops. now rewrite fold_left_app. Qed.

  (* scanning from a table that is (up to the flag) a run of the Theta table: the result is the longer run *)
  Lemma scan_same_tab o ut l : forall t ops0, same_tab t (run ops0) ->
    same_tab (union_scan S sel comb o ut t l) (run (ops0 ++ scan_ops o ut t l)).
  Proof.
    induction l as [|[h v] l IH]; intros t ops0 Hs; simpl.
    - now rewrite app_nil_r.
    - destruct ((h <? ut) && (h <? theta t)).
      + replace (ops0 ++ uop h v :: scan_ops o ut (update S sel t h (comb_f v)) l)
          with ((ops0 ++ [uop h v]) ++ scan_ops o ut (update S sel t h (comb_f v)) l) by now rewrite <- app_assoc.
        apply IH. rewrite run_app. cbn [fold_left]. rewrite <- update_is_step.
        rewrite (update_same_tab _ _ h (comb_f v) Hs). apply same_tab_refl.
      + destruct o; [now rewrite app_nil_r|apply IH; exact Hs].
  Qed.

  Lemma scan_theta_le o ut l t ops0 : same_tab t (run ops0) -> theta (union_scan S sel comb o ut t l) <= theta t.
  Proof.
    intros Hs. destruct (scan_same_tab o ut l t ops0 Hs) as (_ & _ & _ & _ & E & _). rewrite E.
    destruct Hs as (_ & _ & _ & _ & E0 & _). rewrite E0.
    apply (theta_monotone S sel sel_ok lgn r th0 lgn_ge). apply scan_ops_no_reset.
  Qed.

  (* what the loop does to the payload of a key that stays below both thetas: combined with the input's summary of
     that key if the input holds it (never skipped, never twice), untouched otherwise *)
  Lemma scan_pay h o ut l : forall t ops0 cur, same_tab t (run ops0) ->
    NoDup (map fst l) -> (o = true -> StronglySorted (klt fst) l) ->
    h < ut -> h < theta (union_scan S sel comb o ut t l) ->
    fold_left (pay_step h) (scan_ops o ut t l) cur =
    match lookup h l with Some v => Some (comb_f v cur) | None => cur end.
  Proof.
    induction l as [|[k w] l IH]; intros t ops0 cur Hs Hnd Hso Hut Hth; [reflexivity|].
    inversion Hnd; subst.
    assert (Hso' : o = true -> StronglySorted (klt fst) l) by (intros E; specialize (Hso E); inversion Hso; auto).
    cbn [scan_ops union_scan TupleDefs.lookup] in *.
    destruct ((k <? ut) && (k <? theta t)) eqn:Escr.
    - (* the entry is processed *)
      assert (Hs' : same_tab (update S sel t k (comb_f w)) (run (ops0 ++ [uop k w]))).
      { rewrite run_app. cbn [fold_left]. rewrite <- update_is_step. rewrite (update_same_tab _ _ k (comb_f w) Hs).
        apply same_tab_refl. }
      cbn [fold_left pay_step uop]. rewrite half_double.
      rewrite (IH _ _ _ Hs' H2 Hso' Hut Hth).
      destruct (N.eqb_spec k h) as [->|E].
      + destruct (lookup h l) eqn:El; [|reflexivity]. exfalso. apply H1. apply lookup_in in El.
        change h with (fst (h, s)). now apply in_map.
      + reflexivity.
    - (* the entry is screened out: its key is not below both thetas, so it is not h *)
      assert (Hk : k <> h).
      { intros ->. apply andb_false_iff in Escr. destruct Escr as [E|E]; apply N.ltb_ge in E; [lia|].
        destruct o.
        - lia.
        - pose proof (scan_theta_le false ut l t ops0 Hs). lia. }
      destruct (N.eqb_spec k h) as [E|_]; [contradiction|].
      destruct o.
      + (* ordered: early stop; the later keys are larger still *)
        cbn [fold_left]. destruct (lookup h l) eqn:El; [|reflexivity]. exfalso.
        apply lookup_in in El. specialize (Hso eq_refl). inversion Hso; subst. rewrite Forall_forall in H4.
        specialize (H4 _ El). unfold klt in H4. simpl in H4.
        apply andb_false_iff in Escr. destruct Escr as [E|E]; apply N.ltb_ge in E; lia.
      + apply (IH _ _ _ Hs H2 Hso' Hut Hth).
  Qed.

  (* ---- the union over a list of inputs ---- *)
  Definition union_run (cs : list compact) : union_st S :=
    fold_left (union_update S sel comb) cs (union_new S lgn r th0).

  (* summaries of key h in the non-empty inputs holding it, in presentation order *)
  Fixpoint hsummaries (h : N) (cs : list compact) : list S :=
    match cs with
    | [] => []
    | c :: r0 => match (if c_empty c then None else lookup h (c_entries c)) with
                 | Some v => v :: hsummaries h r0
                 | None => hsummaries h r0
                 end
    end.

  Lemma hsummaries_snoc h cs c :
    hsummaries h (cs ++ [c]) =
    hsummaries h cs ++ match (if c_empty c then None else lookup h (c_entries c)) with Some v => [v] | None => [] end.
  Proof.
    induction cs as [|d cs IH]; simpl.
    - destruct (if c_empty c then None else lookup h (c_entries c)); reflexivity.
    - rewrite IH. destruct (if c_empty d then None else lookup h (c_entries d)); reflexivity.
  Qed.

  Definition fold1 (l : list S) : option S :=
    match l with [] => None | v1 :: vs => Some (fold_left comb vs v1) end.

  Lemma fold1_snoc l v : fold1 (l ++ [v]) = Some (comb_f v (fold1 l)).
  Proof. destruct l as [|a l]; simpl; [reflexivity|]. now rewrite fold_left_app. Qed.

  Record UInv (cs : list compact) (u : union_st S) (ops : list (op S)) : Prop := {
    ui_tab : same_tab (u_tab u) (run ops);
    ui_pay : forall h, h < u_theta u -> h < theta (u_tab u) -> pay_of h ops = fold1 (hsummaries h cs)
  }.

  Lemma uinv_step cs u ops c : cwf c -> UInv cs u ops ->
    exists ops', UInv (cs ++ [c]) (union_update S sel comb u c) ops'.
  Proof.
    intros (Hndc & Hec & Hoc) [Htab Hpay]. unfold union_update. destruct (c_empty c) eqn:Ee.
    - exists ops. constructor; [exact Htab|]. intros h H1 H2. rewrite hsummaries_snoc, Ee, app_nil_r. now apply Hpay.
    - set (ut := N.min (u_theta u) (c_theta c)).
      set (t0 := set_nonempty S (u_tab u)).
      assert (Hs0 : same_tab t0 (run ops)) by (eapply same_tab_trans; [apply same_tab_nonempty|exact Htab]).
      set (t' := union_scan S sel comb (c_ordered c) ut t0 (c_entries c)).
      exists (ops ++ scan_ops (c_ordered c) ut t0 (c_entries c)). constructor; cbn [u_tab u_theta].
      + apply scan_same_tab. exact Hs0.
      + intros h H1 H2. fold t' in H1, H2.
        assert (Hle : theta t' <= theta t0) by (eapply scan_theta_le; eauto).
        assert (E0 : theta t0 = theta (u_tab u)) by reflexivity.
        unfold pay_of. rewrite fold_left_app. fold (pay_of h ops).
        rewrite (scan_pay h (c_ordered c) ut (c_entries c) t0 ops (pay_of h ops) Hs0 Hndc Hoc); [|lia|exact H2].
        rewrite Hpay by (unfold ut in *; lia).
        rewrite hsummaries_snoc, Ee. destruct (lookup h (c_entries c)) as [v|].
        * now rewrite fold1_snoc.
        * now rewrite app_nil_r.
  Qed.

  Lemma uinv_run cs : Forall cwf cs -> exists ops, UInv cs (union_run cs) ops.
  Proof.
    induction cs as [|c cs IH] using rev_ind; intros Hwf.
    - exists []. constructor; [apply same_tab_refl|]. intros h _ _. reflexivity.
    - apply Forall_app in Hwf. destruct Hwf as [Hcs Hc]. inversion Hc; subst.
      destruct (IH Hcs) as (ops & Hinv). unfold union_run. rewrite fold_left_app. cbn [fold_left].
      eapply uinv_step; eauto.
  Qed.

  Lemma firstn_in {A} k (l : list A) x : In x (firstn k l) -> In x l.
  Proof. revert k. induction l as [|a l IH]; intros [|k]; simpl; try tauto. intros [H|H]; eauto. Qed.

  (* entries of the result come from the table and are below both thetas *)
  Lemma union_result_in u ops ordered h v : same_tab (u_tab u) (run ops) ->
    In (h, v) (c_entries (union_result S sel u ordered)) ->
    In (h, v) (entries S (u_tab u)) /\ h < u_theta u /\ h < theta (u_tab u).
  Proof.
    intros Hs. unfold union_result. destruct (is_empty (u_tab u)); [intros []|].
    set (t := u_tab u) in *. set (th := N.min (u_theta u) (theta t)).
    set (ents := if theta t <=? u_theta u then entries S t else filter (fun e => fst e <? th) (entries S t)).
    assert (Hents : forall x, In x ents -> In x (entries S t) /\ fst x < u_theta u /\ fst x < theta t).
    { intros x Hx.
      assert (Hkey : In x (entries S t) -> fst x < theta t).
      { intros Hin. destruct Hs as (_ & _ & _ & _ & E & _ & Esl). rewrite E.
        destruct (refines S sel sel_ok lgn r th0 lgn_ge ops) as (_ & Hset & _). cbv zeta in Hset.
        assert (Hk : In (fst x) (keys S (run ops))).
        { unfold keys, entries. rewrite <- Esl. now apply in_map. }
        apply Hset in Hk. lia. }
      unfold ents in Hx. destruct (N.leb_spec (theta t) (u_theta u)) as [E|E].
      - specialize (Hkey Hx). split; [auto|]. lia.
      - apply filter_In in Hx. destruct Hx as [Hx Hlt]. apply N.ltb_lt in Hlt. specialize (Hkey Hx).
        split; [auto|]. unfold th in Hlt. lia. }
    set (k := knom S t).
    assert (Hsub : forall ents' th', (if (k <? length ents)%nat
                    then match nth_error (sel k ents) k with Some p => (fst p, firstn k (sel k ents)) | None => (th, ents) end
                    else (th, ents)) = (th', ents') -> incl ents' ents).
    { intros ents' th' E. destruct (k <? length ents)%nat eqn:Ek.
      - apply Nat.ltb_lt in Ek. destruct (sel_ok k ents Ek) as [Hperm _].
        destruct (nth_error (sel k ents) k); inversion E; subst; [|apply incl_refl].
        intros x Hx. eapply Permutation_in; [exact Hperm|]. eapply firstn_in; eauto.
      - inversion E; subst. apply incl_refl. }
    destruct (if (k <? length ents)%nat then _ else _) as [th' ents'] eqn:E.
    specialize (Hsub _ _ eq_refl). unfold mk_cs. cbn [c_entries]. intros Hin.
    assert (Hin' : In (h, v) ents').
    { destruct ordered; [|exact Hin]. eapply Permutation_in; [apply msort_perm|exact Hin]. }
    apply Hsub, Hents in Hin'. exact Hin'.
  Qed.

  Theorem union_summary cs ordered h v : Forall cwf cs ->
    In (h, v) (c_entries (union_result S sel (union_run cs) ordered)) ->
    exists v1 vs, hsummaries h cs = v1 :: vs /\ v = fold_left comb vs v1.
  Proof.
    intros Hwf Hin. destruct (uinv_run cs Hwf) as (ops & [Htab Hpay]).
    destruct (union_result_in _ ops _ _ _ Htab Hin) as (Hent & H1 & H2).
    specialize (Hpay h H1 H2).
    assert (Hp : pay_of h ops = Some v).
    { apply (run_pay S sel sel_ok lgn r th0 lgn_ge). destruct Htab as (_ & _ & _ & _ & _ & _ & Esl).
      unfold entries in *. now rewrite <- Esl. }
    rewrite Hp in Hpay. destruct (hsummaries h cs) as [|v1 vs]; [discriminate|].
    exists v1, vs. split; [reflexivity|]. simpl in Hpay. now inversion Hpay.
  Qed.
End UnionFacts.
