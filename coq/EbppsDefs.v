(* EbppsDefs.v — executable model of sampling/include/ebpps_sketch_impl.hpp and ebpps_sample_impl.hpp
   (no proofs here).  The model is written once over an abstract number structure [NumOps] and
   instantiated twice: with Coq's primitive binary64 floats (extracted, replayed bit for bit against
   the C++) and with Q (exact arithmetic; the theorems of EbppsProofs.v are about this instance).
   Random choices (next_double, random_idx) are consumed in order from a token stream. *)
From Coq Require Import ZArith NArith List Bool QArith Qround Floats.
From DS Require Import RunnerLib FloatBits.
Import ListNotations.
Local Open Scope Z_scope.

Record NumOps : Type := {
  num : Type;
  n0 : num; n1 : num;
  nadd : num -> num -> num; nsub : num -> num -> num;
  nmul : num -> num -> num; ndiv : num -> num -> num;
  nltb : num -> num -> bool; nleb : num -> num -> bool; neqb : num -> num -> bool;
  nint : num -> num;          (* integral part: std::modf / std::floor of a non-negative value *)
  nnat : num -> nat;          (* static_cast<uint32_t> of an integral value *)
  nofZ : Z -> num;            (* uint32_t -> double *)
  nfinite : num -> bool;      (* !isnan && !isinf *)
  tok : Type;                 (* one random draw as logged by the hook *)
  tunit : tok -> num;         (* ... read as next_double() *)
  tidxZ : tok -> Z;           (* ... read as random_idx(max) *)
  tdflt : tok                 (* used when the stream is exhausted (flagged) *)
}.

Section Model.
  Variable NO : NumOps.
  Variable Item : Type.
  Local Notation num := (num NO).
  Local Notation n0 := (n0 NO).
  Local Notation n1 := (n1 NO).
  Local Notation nadd := (nadd NO).
  Local Notation nsub := (nsub NO).
  Local Notation nmul := (nmul NO).
  Local Notation ndiv := (ndiv NO).
  Local Notation nltb := (nltb NO).
  Local Notation nleb := (nleb NO).
  Local Notation neqb := (neqb NO).
  Local Notation nint := (nint NO).

  (* ---- choice stream: remaining draws, "needed more than supplied", "C++ would be undefined here" ---- *)
  Record cs := { c_rem : list (tok NO); c_under : bool;
                 c_ub : bool;     (* the C++ would read an absent partial item here *)
                 c_trap : bool;   (* random_idx(0) was requested (undefined in the code; trapped by the harness source) *)
                 c_site : Z       (* ghost: first step after which the sample no longer had floor(c) full items and a
                                     partial item iff frac(c) != 0: 1 = an item entered with theta > 1, 2 = downsample,
                                     3 = sample merge; 0 = never (the only value possible in exact arithmetic) *) }.
  Definition set_ub (s : cs) : cs :=
    {| c_rem := c_rem s; c_under := c_under s; c_ub := true; c_trap := c_trap s; c_site := c_site s |}.
  Definition set_trap (s : cs) : cs :=
    {| c_rem := c_rem s; c_under := c_under s; c_ub := c_ub s; c_trap := true; c_site := c_site s |}.
  Definition note_site (b : bool) (site : Z) (s : cs) : cs :=
    if b && (c_site s =? 0) then
      {| c_rem := c_rem s; c_under := c_under s; c_ub := c_ub s; c_trap := c_trap s; c_site := site |}
    else s.
  Definition draw (s : cs) : tok NO * cs :=
    match c_rem s with
    | [] => (tdflt NO, {| c_rem := []; c_under := true; c_ub := c_ub s; c_trap := c_trap s; c_site := c_site s |})
    | t :: r => (t, {| c_rem := r; c_under := c_under s; c_ub := c_ub s; c_trap := c_trap s; c_site := c_site s |})
    end.
  Definition draw_unit (s : cs) : num * cs := let (t, s') := draw s in (tunit NO t, s').
  (* random_idx(max): a value in [0, max); max = 0 is undefined in the code *)
  Definition draw_idx (max : nat) (s : cs) : nat * cs :=
    match max with
    | O => (O, set_trap s)
    | _ => let (t, s') := draw s in (Z.to_nat (tidxZ NO t mod Z.of_nat max), s')
    end.

  (* ---- ebpps_sample ---- *)
  Record sample := { sc : num; sdata : list Item; spart : option Item }.
  Definition sample_empty : sample := {| sc := n0; sdata := []; spart := None |}.

  Definition set_nth (i : nat) (x : Item) (l : list Item) : list Item := upd_nth i (fun _ => x) l.
  Definition swap_nth (i j : nat) (l : list Item) : list Item :=
    match nth_error l i, nth_error l j with
    | Some a, Some b => set_nth j a (set_nth i b l)
    | _, _ => l
    end.

  (* replace_content(item, theta) *)
  Definition replace_content (it : Item) (theta : num) : sample :=
    if neqb theta n1 then {| sc := theta; sdata := [it]; spart := None |}
    else {| sc := theta; sdata := []; spart := Some it |}.

  (* subsample(num_samples): partial Fisher-Yates, then truncate *)
  Fixpoint sub_loop (cnt i : nat) (d : list Item) (s : cs) : list Item * cs :=
    match cnt with
    | O => (d, s)
    | S c' => let (r, s1) := draw_idx (length d - i) s in
              sub_loop c' (S i) (swap_nth i (i + r) d) s1
    end.
  Definition subsample (m : nat) (d : list Item) (s : cs) : list Item * cs :=
    if Nat.eqb m (length d) then (d, s)
    else if Nat.ltb (length d) m then (d, set_trap s)
    else let (d', s') := sub_loop m 0 d s in (firstn m d', s').

  (* move_one_to_partial() *)
  Definition move_one (d : list Item) (p : option Item) (s : cs) : list Item * option Item * cs :=
    let (r, s1) := draw_idx (length d) s in
    let d' := swap_nth r (length d - 1) d in
    match nth_error d' (length d - 1) with
    | Some x => (removelast d', Some x, s1)
    | None => (d, p, set_ub s1)
    end.

  (* swap_with_partial() *)
  Definition swap_with_partial (d : list Item) (p : option Item) (s : cs) : list Item * option Item * cs :=
    match p with
    | Some y =>
        let (r, s1) := draw_idx (length d) s in
        match nth_error d r with
        | Some x => (set_nth r y d, Some x, s1)
        | None => (d, p, set_ub s1)
        end
    | None => move_one d p s
    end.

  (* downsample(theta) *)
  Definition downsample (theta : num) (sm : sample) (s : cs) : sample * cs :=
    if nleb n1 theta then (sm, s) else
    let c := sc sm in
    let new_c := nmul theta c in
    let new_c_int := nint new_c in
    let new_c_frac := nsub new_c new_c_int in
    let c_int := nint c in
    let c_frac := nsub c c_int in
    let (u, s1) := draw_unit s in
    let '(d, p, s2) :=
      if neqb new_c_int n0 then
        let '(d1, p1, s') := if nltb (ndiv c_frac c) u then swap_with_partial (sdata sm) (spart sm) s1
                             else (sdata sm, spart sm, s1) in
        ([], p1, s')
      else if neqb new_c_int c_int then
        if nltb (ndiv (nsub n1 (nmul theta c_frac)) (nsub n1 new_c_frac)) u
        then swap_with_partial (sdata sm) (spart sm) s1
        else (sdata sm, spart sm, s1)
      else
        if nltb u (nmul theta c_frac) then
          let (d1, s') := subsample (nnat NO new_c_int) (sdata sm) s1 in
          swap_with_partial d1 (spart sm) s'
        else
          let (d1, s') := subsample (S (nnat NO new_c_int)) (sdata sm) s1 in
          move_one d1 (spart sm) s' in
    ({| sc := new_c; sdata := d; spart := if neqb new_c new_c_int then None else p |}, s2).

  Definition app_opt (d : list Item) (p : option Item) : list Item :=
    match p with Some x => d ++ [x] | None => d end.

  (* merge(other) *)
  Definition smerge (sm other : sample) (s : cs) : sample * cs :=
    let c := sc sm in
    let c_frac := nsub c (nint c) in
    let other_c_frac := nsub (sc other) (nint (sc other)) in
    let c' := nadd c (sc other) in
    let d := sdata sm ++ sdata other in
    if neqb c_frac n0 && neqb other_c_frac n0 then
      ({| sc := c'; sdata := d; spart := None |}, s)
    else if neqb (nadd c_frac other_c_frac) n1 || neqb c' (nint c') then
      let (u, s1) := draw_unit s in
      if nleb u c_frac then ({| sc := c'; sdata := app_opt d (spart sm); spart := None |}, s1)
      else ({| sc := c'; sdata := app_opt d (spart other); spart := None |}, s1)
    else if nltb (nadd c_frac other_c_frac) n1 then
      let (u, s1) := draw_unit s in
      if nltb (ndiv c_frac (nadd c_frac other_c_frac)) u then
        match spart other with
        | Some y => ({| sc := c'; sdata := d; spart := Some y |}, s1)
        | None => ({| sc := c'; sdata := d; spart := spart sm |}, set_ub s1)
        end
      else ({| sc := c'; sdata := d; spart := spart sm |}, s1)
    else
      let (u, s1) := draw_unit s in
      if nleb u (ndiv (nsub n1 c_frac) (nadd (nsub n1 c_frac) (nsub n1 other_c_frac))) then
        match spart other with
        | Some y => ({| sc := c'; sdata := d ++ [y]; spart := spart sm |}, s1)
        | None => ({| sc := c'; sdata := d; spart := spart sm |}, set_ub s1)
        end
      else
        match spart sm, spart other with
        | Some x, Some y => ({| sc := c'; sdata := d ++ [x]; spart := Some y |}, s1)
        | _, _ => ({| sc := c'; sdata := d; spart := spart sm |}, set_ub s1)
        end.

  (* get_sample() *)
  Definition get_result (sm : sample) (s : cs) : list Item * cs :=
    let c_frac := nsub (sc sm) (nint (sc sm)) in
    let (u, s1) := draw_unit s in
    if nltb u c_frac then
      match spart sm with
      | Some p => (sdata sm ++ [p], s1)
      | None => (sdata sm, set_ub s1)
      end
    else (sdata sm, s1).

  (* for (it = begin(); it != end(); ++it) *)
  Definition iterate (sm : sample) (s : cs) : list Item * cs :=
    let c_frac := nsub (sc sm) (nint (sc sm)) in
    let (u, s1) := draw_unit s in
    let use_partial := nltb u c_frac in
    if neqb (sc sm) n0 then ([], s1) else
    match sdata sm, spart sm with
    | [], None => ([], s1)
    | [], Some p => if use_partial then ([p], s1) else ([], set_ub s1)   (* runs off the empty vector *)
    | d, Some p => if use_partial then (d ++ [p], s1) else (d, s1)
    | d, None => if use_partial then (d, set_ub s1) else (d, s1)
    end.

  (* the shape every operation relies on: floor(c) full items, a partial item iff frac(c) != 0 *)
  Definition shape_ok (sm : sample) : bool :=
    Nat.eqb (length (sdata sm)) (nnat NO (nint (sc sm))) &&
    Bool.eqb (match spart sm with Some _ => true | None => false end) (negb (neqb (nsub (sc sm) (nint (sc sm))) n0)).

  (* ---- ebpps_sketch ---- *)
  Record sketch := { sk_k : Z; sk_n : Z; sk_cw : num; sk_wmax : num; sk_rho : num; sk_smp : sample }.
  Definition sketch_empty (k : Z) : sketch :=
    {| sk_k := k; sk_n := 0; sk_cw := n0; sk_wmax := n0; sk_rho := n1; sk_smp := sample_empty |}.

  Definition nmax (a b : num) : num := if nltb a b then b else a.     (* std::max(a, b) *)
  Definition nmin (a b : num) : num := if nltb b a then b else a.     (* std::min(a, b) *)

  (* the common body of internal_update and of the replay steps of internal_merge:
     state = (cumulative_wt_, rho_, sample_); [dw] is added to the cumulative weight, the new item
     enters with theta = th new_rho *)
  Definition feed (k : Z) (wm : num) (it : Item) (dw : num) (th : num -> num)
             (st : num * num * sample) (s : cs) : (num * num * sample) * cs :=
    let '(cw, rho, sm) := st in
    let new_cum := nadd cw dw in
    let new_rho := nmin (ndiv n1 wm) (ndiv (nofZ NO k) new_cum) in
    let (sm1, s1) := if nltb n0 cw then downsample (ndiv new_rho rho) sm s else (sm, s) in
    let s1' := note_site (shape_ok sm && negb (shape_ok sm1)) 2 s1 in
    let theta := th new_rho in
    let (sm2, s2) := smerge sm1 (replace_content it theta) s1' in
    ((new_cum, new_rho, sm2), note_site (shape_ok sm1 && negb (shape_ok sm2)) (if nltb n1 theta then 1 else 3) s2).

  (* internal_update; None = throws (state unchanged) *)
  Definition update (sk : sketch) (it : Item) (w : num) (s : cs) : option (sketch * cs) :=
    if nltb w n0 || negb (nfinite NO w) then None
    else if neqb w n0 then Some (sk, s)
    else
      let wm := nmax (sk_wmax sk) w in
      let '((cw, rho, sm), s') :=
        feed (sk_k sk) wm it w (fun r => nmul r w) (sk_cw sk, sk_rho sk, sk_smp sk) s in
      Some ({| sk_k := sk_k sk; sk_n := sk_n sk + 1; sk_cw := cw; sk_wmax := wm; sk_rho := rho; sk_smp := sm |}, s').

  (* internal_merge(sk): [a] is *this (not lighter than [b]).
     [keep_wmax = true] is the code before fixes/18_ebpps_merge_wt_max.patch: new_wt_max was computed and used for the
     replay but never stored, so wt_max_ of *this stayed behind the true maximum (see Regression_ebpps.v);
     [keep_wmax = false] is the repaired code (wt_max_ = new_wt_max at the end). *)
  Definition internal_merge_gen (keep_wmax : bool) (a b : sketch) (s : cs) : sketch * cs :=
    let final := nadd (sk_cw a) (sk_cw b) in
    let wm := nmax (sk_wmax a) (sk_wmax b) in
    let k := Z.min (sk_k a) (sk_k b) in
    let new_n := sk_n a + sk_n b in
    let osm := sk_smp b in
    let avg := ndiv (sk_cw b) (sc osm) in
    let '(st1, s1) :=
      fold_left (fun acc it => feed k wm it avg (fun r => nmul r avg) (fst acc) (snd acc))
                (sdata osm) ((sk_cw a, sk_rho a, sk_smp a), s) in
    let '(st2, s2) :=
      match spart osm with
      | Some p =>
          let ofr := nsub (sc osm) (nint (sc osm)) in
          feed k wm p (nmul ofr avg) (fun r => nmul (nmul r ofr) avg) st1 s1
      | None => (st1, s1)
      end in
    let '(cw, rho, sm) := st2 in
    ({| sk_k := k; sk_n := new_n; sk_cw := final; sk_wmax := if keep_wmax then sk_wmax a else wm;
        sk_rho := rho; sk_smp := sm |}, s2).
  Definition internal_merge := internal_merge_gen false.

  (* merge(sk), lvalue and rvalue overloads alike as far as *this is concerned.
     As coded: an empty [sk] is ignored altogether (its k too), and an empty *this that receives a non-empty sketch takes
     min k but keeps the sample as it is (both are registered findings, see checks/C18.py). *)
  Definition merge_gen (keep_wmax : bool) (a b : sketch) (s : cs) : sketch * cs :=
    if neqb (sk_cw b) n0 then (a, s)
    else if nltb (sk_cw a) (sk_cw b) then internal_merge_gen keep_wmax b a s
    else internal_merge_gen keep_wmax a b s.
  Definition merge := merge_gen false.

  (* a whole stream of updates; a refused update (None) leaves the sketch unchanged *)
  Fixpoint run_updates (sk : sketch) (ups : list (Item * num)) (s : cs) : sketch * cs :=
    match ups with
    | [] => (sk, s)
    | (it, w) :: r =>
        match update sk it w s with
        | None => run_updates sk r s
        | Some (sk', s') => run_updates sk' r s'
        end
    end.

  (* serialize then deserialize: the reader takes floor(c) full items and, iff frac(c) != 0, one partial item from
     the items written (full items then the partial item); None = it throws *)
  Definition reread (sm : sample) : option sample :=
    let c := sc sm in
    let nfull := nnat NO (nint c) in
    let hasp := negb (neqb (nsub c (nint c)) n0) in
    let seq := app_opt (sdata sm) (spart sm) in
    if nltb c n0 then None
    else if Nat.ltb (length seq) (nfull + (if hasp then 1 else 0)) then None
    else if negb (Bool.eqb hasp (match spart sm with Some _ => true | None => false end)) then None
    else Some {| sc := c; sdata := firstn nfull seq; spart := if hasp then nth_error seq nfull else None |}.

  (* serialize then deserialize of the whole sketch: an empty sketch (n = 0) is written as its first 8 bytes only (k),
     a non-empty one as k, n, cumulative weight, maximum weight, rho and the sample *)
  Definition sk_reread (sk : sketch) : option sketch :=
    if sk_n sk =? 0 then Some (sketch_empty (sk_k sk))
    else match reread (sk_smp sk) with
         | Some sm' => Some {| sk_k := sk_k sk; sk_n := sk_n sk; sk_cw := sk_cw sk; sk_wmax := sk_wmax sk;
                               sk_rho := sk_rho sk; sk_smp := sm' |}
         | None => None
         end.
End Model.

Arguments sc {NO Item}. Arguments sdata {NO Item}. Arguments spart {NO Item}.
Arguments sk_k {NO Item}. Arguments sk_n {NO Item}. Arguments sk_cw {NO Item}. Arguments sk_wmax {NO Item}.
Arguments sk_rho {NO Item}. Arguments sk_smp {NO Item}.
Arguments c_rem {NO}. Arguments c_under {NO}. Arguments c_ub {NO}. Arguments c_trap {NO}. Arguments c_site {NO}.

(* ================= instance 1: binary64 ================= *)

Definition f_int (f : PrimFloat.float) : PrimFloat.float :=
  match Prim2SF f with
  | S754_finite s m e =>
      if 0 <=? e then f
      else let r := PrimFloat.of_uint63 (Uint63.of_Z (Z.shiftr (Zpos m) (- e))) in
           if s then PrimFloat.opp r else r
  | _ => f
  end.

Definition f_truncZ (f : PrimFloat.float) : Z :=
  match Prim2SF f with
  | S754_finite s m e =>
      let v := if 0 <=? e then Zpos m * 2 ^ e else Z.shiftr (Zpos m) (- e) in
      if s then - v else v
  | _ => 0
  end.

Definition f_finite (f : PrimFloat.float) : bool :=
  PrimFloat.eqb f f && negb (PrimFloat.eqb (PrimFloat.abs f) PrimFloat.infinity).

Definition FloatOps : NumOps := {|
  num := PrimFloat.float; n0 := PrimFloat.zero; n1 := PrimFloat.one;
  nadd := PrimFloat.add; nsub := PrimFloat.sub; nmul := PrimFloat.mul; ndiv := PrimFloat.div;
  nltb := PrimFloat.ltb; nleb := PrimFloat.leb; neqb := PrimFloat.eqb;
  nint := f_int; nnat := fun f => Z.to_nat (Z.min (f_truncZ f) 4294967295);
  nofZ := fun z => PrimFloat.of_uint63 (Uint63.of_Z z);
  nfinite := f_finite;
  tok := Z; tunit := bits_to_float; tidxZ := fun z => z; tdflt := 4602678819172646912 |}.

(* ================= instance 2: exact rationals ================= *)

Definition QOps : NumOps := {|
  num := Q; n0 := 0%Q; n1 := 1%Q;
  nadd := Qplus; nsub := Qminus; nmul := Qmult; ndiv := Qdiv;
  nltb := fun a b => negb (Qle_bool b a); nleb := Qle_bool; neqb := Qeq_bool;
  nint := fun q => inject_Z (Qfloor q); nnat := fun q => Z.to_nat (Qfloor q);
  nofZ := inject_Z; nfinite := fun _ => true;
  tok := (Q * nat)%type; tunit := fst; tidxZ := fun t => Z.of_nat (snd t); tdflt := ((1 # 2)%Q, O) |}.

(* ================= line protocol (binary64 instance, items = int64 values as Z) ================= *)

Definition fsketch := sketch FloatOps Z.
Definition fcs := cs FloatOps.

(* exact value of a finite double *)
Definition float_to_Q (f : PrimFloat.float) : Q :=
  match Prim2SF f with
  | S754_finite s m e =>
      let mz := if s then Zneg m else Zpos m in
      if 0 <=? e then inject_Z (mz * 2 ^ e) else Qred (mz # Z.to_pos (2 ^ (- e)))
  | _ => 0%Q
  end.

(* ghost state kept beside each register: the L0 facts of the stream(s) that went into it *)
Record ghost := {
  g_n : Z;                 (* number of accepted (positive-weight) items *)
  g_k : Z;                 (* smallest k over everything merged in *)
  g_W : Q; g_wmax : Q; g_wmin : Q;
  g_int : bool;            (* all weights integers *)
  g_items : list Z;        (* the input multiset *)
  g_taint : bool;          (* an update/merge ran while wt_max_ lagged behind the true maximum *)
  g_kskip : bool;          (* an empty sketch with a smaller k was merged in *)
  g_intoempty : bool;      (* a sketch was merged into an empty sketch with a smaller k (and no update since) *)
  g_site : Z               (* first step that broke the sample's shape by rounding (see c_site), 0 = none *)
}.
Definition ghost_empty (k : Z) : ghost :=
  {| g_n := 0; g_k := k; g_W := 0%Q; g_wmax := 0%Q; g_wmin := 0%Q; g_int := true; g_items := []; g_taint := false; g_kskip := false; g_intoempty := false; g_site := 0 |}.

Record full := { f_sk : fsketch; f_g : ghost }.

Definition qmaxb (a b : Q) : Q := if Qle_bool a b then b else a.
Definition qminb (a b : Q) : Q := if Qle_bool a b then a else b.
Definition q_is_int (q : Q) : bool := Pos.eqb (Qden (Qred q)) 1.

Definition stale (f : full) : bool :=
  negb (Qeq_bool (float_to_Q (sk_wmax (f_sk f))) (g_wmax (f_g f))).

Definition first_site (a b : Z) : Z := if a =? 0 then b else a.

Definition ghost_update (stl : bool) (site : Z) (g : ghost) (it : Z) (w : Q) : ghost :=
  {| g_n := g_n g + 1; g_k := g_k g; g_W := Qred (g_W g + w);
     g_wmax := if g_n g =? 0 then w else qmaxb (g_wmax g) w;
     g_wmin := if g_n g =? 0 then w else qminb (g_wmin g) w;
     g_int := g_int g && q_is_int w; g_items := g_items g ++ [it];
     g_taint := g_taint g || stl; g_kskip := g_kskip g; g_intoempty := false; g_site := first_site (g_site g) site |}.

Definition ghost_merge (stl : bool) (site : Z) (a b : ghost) : ghost :=
  {| g_n := g_n a + g_n b; g_k := Z.min (g_k a) (g_k b); g_W := Qred (g_W a + g_W b);
     g_wmax := if g_n a =? 0 then g_wmax b else if g_n b =? 0 then g_wmax a else qmaxb (g_wmax a) (g_wmax b);
     g_wmin := if g_n a =? 0 then g_wmin b else if g_n b =? 0 then g_wmin a else qminb (g_wmin a) (g_wmin b);
     g_int := g_int a && g_int b; g_items := g_items a ++ g_items b;
     g_taint := g_taint a || g_taint b || stl;
     g_kskip := g_kskip a || g_kskip b || ((g_n b =? 0) && (g_k b <? g_k a));
     g_intoempty := g_intoempty a || g_intoempty b || ((g_n a =? 0) && (0 <? g_n b) && (g_k a <? g_k b));
     g_site := first_site (first_site (g_site a) (g_site b)) site |}.

Fixpoint insert_sorted (x : Z) (l : list Z) : list Z :=
  match l with
  | [] => [x]
  | y :: t => if x <=? y then x :: l else y :: insert_sorted x t
  end.
Definition sort_z (l : list Z) : list Z := fold_right insert_sorted [] l.

Definition cs_init (e : line) : fcs := Build_cs FloatOps e false false false 0.

(* result line of an operation that consumed draws: -4 = the C++ would have undefined behaviour here,
   -3 = the draws supplied do not match the draws needed *)
Definition finish (s : fcs) (r : line) : line :=
  if c_ub s then [-4]
  else if c_trap s then [-5]
  else if c_under s then [-3]
  else match c_rem s with [] => r | _ => [-3] end.

Definition getters (sk : fsketch) : line :=
  [sk_k sk; sk_n sk; float_to_bits (sk_cw sk); float_to_bits (sc (sk_smp sk))].

Definition MAX_K : Z := 2147483646.

Definition spec_line (f : full) : line :=
  let g := f_g f in
  [g_n g; g_k g; Qnum (g_W g); Zpos (Qden (g_W g)); Qnum (g_wmax g); Zpos (Qden (g_wmax g));
   bz (Qeq_bool (g_wmin g) (g_wmax g)); bz (g_int g); bz (g_taint g); bz (stale f); bz (g_kskip g); bz (g_intoempty g); g_site g].

Definition step (s : list (Z * full)) (o e : line) : list (Z * full) * outline :=
  match o with
  | 1 :: r :: k :: _ =>                             (* new sketch *)
      if (k =? 0) || (MAX_K <? k) then (s, (refused, []))
      else (reg_set s r {| f_sk := sketch_empty FloatOps Z k; f_g := ghost_empty k |}, (ok, []))
  | 2 :: r :: it :: wbits :: _ =>                   (* update(item, weight) *)
      match reg_get s r with
      | Some f =>
          let w := bits_to_float wbits in
          match update FloatOps Z (f_sk f) it w (cs_init e) with
          | None => (s, (refused, []))
          | Some (sk', c') =>
              let g' := if PrimFloat.eqb w PrimFloat.zero then f_g f
                        else ghost_update (stale f) (c_site c') (f_g f) it (float_to_Q w) in
              let f' := {| f_sk := sk'; f_g := g' |} in
              if c_trap c' then (reg_del s r, (finish c' ok, spec_line f'))   (* the register is dropped by the harness *)
              else (reg_set s r f', (finish c' ok, []))
          end
      | None => (s, (refused, []))
      end
  | 3 :: r :: _ =>                                  (* get_k, get_n, get_cumulative_weight, get_c *)
      match reg_get s r with
      | Some f => (s, (getters (f_sk f), spec_line f))
      | None => (s, (refused, []))
      end
  | 4 :: r :: _ =>                                  (* get_result twice: natural draw, then a draw of 0.0 *)
      match reg_get s r with
      | Some f =>
          let sm := sk_smp (f_sk f) in
          let (r1, c1) := get_result FloatOps Z sm (cs_init e) in
          let (r2, c2) := get_result FloatOps Z sm c1 in
          (s, (finish c2 (float_to_bits (sc sm) :: nz (length r1) :: sort_z r1 ++ nz (length r2) :: sort_z r2),
               spec_line f ++ g_items (f_g f)))
      | None => (s, (refused, []))
      end
  | 5 :: r :: _ =>                                  (* iterate begin()..end() *)
      match reg_get s r with
      | Some f =>
          let sm := sk_smp (f_sk f) in
          let (r1, c1) := iterate FloatOps Z sm (cs_init e) in
          (s, (finish c1 (float_to_bits (sc sm) :: nz (length r1) :: sort_z r1), spec_line f ++ g_items (f_g f)))
      | None => (s, (refused, []))
      end
  | 6 :: r :: r2 :: mode :: _ =>                    (* merge r2 into r; mode 1 = rvalue (r2 is dropped afterwards) *)
      match reg_get s r, reg_get s r2 with
      | Some f, Some g =>
          if r =? r2 then (s, ([-2], [])) else
          let (sk', c') := merge FloatOps Z (f_sk f) (f_sk g) (cs_init e) in
          let g' := ghost_merge (stale f || stale g) (c_site c') (f_g f) (f_g g) in
          let f' := {| f_sk := sk'; f_g := g' |} in
          let s1 := if c_trap c' then reg_del s r else reg_set s r f' in
          ((if mode =? 1 then reg_del s1 r2 else s1), (finish c' ok, if c_trap c' then spec_line f' else []))
      | _, _ => (s, (refused, []))
      end
  | 7 :: r :: r2 :: _ =>                            (* serialize r, deserialize into r2, report r2's getters *)
      match reg_get s r with
      | Some f =>
          match sk_reread FloatOps Z (f_sk f) with
          | Some sk' => (reg_set s r2 {| f_sk := sk'; f_g := f_g f |}, (getters sk', []))
          | None => (s, (refused, spec_line f))
          end
      | None => (s, (refused, []))
      end
  | 8 :: r :: _ =>                                  (* reset *)
      match reg_get s r with
      | Some f =>
          let k := sk_k (f_sk f) in
          (reg_set s r {| f_sk := sketch_empty FloatOps Z k; f_g := ghost_empty k |}, (ok, []))
      | None => (s, (refused, []))
      end
  | 98 :: _ => (s, (ok, []))                        (* scripted draws (harness-side only) *)
  | 99 :: _ => (s, (ok, []))                        (* reseed (harness-side only) *)
  | _ => (s, ([-2], []))
  end.

Definition run (ops : list opline) : list outline := run_case step [] ops.
