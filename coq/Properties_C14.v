(* Properties_C14.v — count-min: never under-estimates, bounded by the total, linear under merge.
   Only statements, closed by [exact]; proofs live in CountMinProofs.v. *)
From Coq Require Import ZArith NArith List Bool Lia.
From DS Require Import Word Murmur3 RunnerLib CountMinDefs CountMinProofs.
Import ListNotations.
Local Open Scope Z_scope.

Section AnyHash.
  Variable Item : Type.
  Variable eqb : Item -> Item -> bool.
  Hypothesis eqb_spec : forall a b, eqb a b = true <-> a = b.
  Variable nh nb : nat.
  Variable loc : nat -> Item -> nat.          (* ANY family of row hash functions *)
  Hypothesis loc_lt : forall r x, (loc r x < nb)%nat.

  (* every cell holds exactly the weight of the updates hashed to it *)
  Theorem C14_cell_exact : forall ops r c, (r < nh)%nat -> (c < nb)%nat ->
    cell (cm_run Item nh nb loc ops) r c = wsum Item (fun y => Nat.eqb (loc r y) c) ops.
  Proof. exact (cell_run Item nh nb loc). Qed.

  (* non-negative weights: estimate >= true total weight of the item, for every item *)
  Theorem C14_never_underestimates : forall ops x, (0 < nh)%nat -> nonneg Item ops ->
    true_w Item eqb ops x <= cm_estimate Item loc (cm_run Item nh nb loc ops) x.
  Proof. exact (estimate_ge_true Item eqb eqb_spec nh nb loc loc_lt). Qed.

  (* ... and at most the total weight of the stream *)
  Theorem C14_estimate_le_total : forall ops x, (0 < nh)%nat -> nonneg Item ops ->
    cm_estimate Item loc (cm_run Item nh nb loc ops) x <= total (cm_run Item nh nb loc ops).
  Proof. exact (estimate_le_total Item nh nb loc loc_lt). Qed.

  (* total weight = sum of absolute update weights (negative weights included) *)
  Theorem C14_total_exact : forall ops, total (cm_run Item nh nb loc ops) = abs_total Item ops.
  Proof. exact (total_run Item nh nb loc). Qed.

  (* merge = one sketch fed the concatenated streams: same cells, same total, hence same estimates *)
  Theorem C14_merge_linear : forall opsa opsb,
    cm_merge (cm_run Item nh nb loc opsa) (cm_run Item nh nb loc opsb) = cm_run Item nh nb loc (opsa ++ opsb).
  Proof. exact (merge_linear Item nh nb loc). Qed.
End AnyHash.

(* the protocol-level step refuses a self merge and a merge of different configurations *)
Theorem C14_self_merge_refused : forall s r f, reg_get s r = Some f ->
  step s [4; r; r] [] = (s, (refused, [])).
Proof. intros s r f H. unfold step. rewrite H. now rewrite Z.eqb_refl. Qed.

Theorem C14_incompatible_merge_refused : forall s r r2 f g, r <> r2 ->
  reg_get s r = Some f -> reg_get s r2 = Some g ->
  cfg_eqb (fst (f_sk f)) (fst (f_sk g)) = false ->
  step s [4; r; r2] [] = (s, (refused, [])).
Proof.
  intros s r r2 f g Hne Hf Hg Hc. unfold step. rewrite Hf, Hg.
  destruct (Z.eqb_spec r r2); [contradiction|].
  destruct (f_sk f) as [c m], (f_sk g) as [c2 m2]. simpl in Hc. now rewrite Hc.
Qed.

(* non-vacuity: a concrete run with the Murmur instance meets the hypotheses and the conclusion is informative *)
Example C14_nonvacuous :
  let c := {| c_nh := 3; c_nb := 5; c_seed := 9001; c_seeds := [1; 2; 3]%N |} in
  let ops := [(N_to_le_bytes 8 1, 2); (N_to_le_bytes 8 2, 3); (N_to_le_bytes 8 1, 4); (N_to_le_bytes 8 7, 1)] in
  let s := cm_run _ 3 5 (cm_loc c) ops in
  (cm_estimate _ (cm_loc c) s (N_to_le_bytes 8 1) >=? 6) = true /\ total s = 10.
Proof. vm_compute. split; reflexivity. Qed.

Print Assumptions C14_cell_exact.
Print Assumptions C14_never_underestimates.
Print Assumptions C14_estimate_le_total.
Print Assumptions C14_total_exact.
Print Assumptions C14_merge_linear.
Print Assumptions C14_self_merge_refused.
Print Assumptions C14_incompatible_merge_refused.
