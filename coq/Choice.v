(* Choice.v — the monad of internal fair coin flips and its exact "expectation" (DESIGN.md Appendix B, binary choices).
   A computation that draws coins is a tree: [Ret a] is an outcome, [Flip k] draws one coin and continues with [k c].
   - [replay m cs]   runs m with the coins cs (what the extracted runner does with the coins the implementation reported);
   - [msum f m]      is the sum of f over ALL outcomes (2^depth of them when the tree is uniform): the exact expectation
                     times the number of outcomes, kept in Z so that no division is needed;
   - [dep m]         is the number of coins drawn along the all-zero path; [uniform m] says every path draws that many
                     ("the number of flips does not depend on their outcomes");
   - [msim R m1 m2]  says m1 and m2 have the same shape whatever coins are given to either of them, with R-related outcomes. *)
From Coq Require Import ZArith List Bool Lia.
Import ListNotations.
Local Open Scope Z_scope.

Inductive M (A : Type) : Type :=
| Ret (a : A)
| Flip (k : bool -> M A).
Arguments Ret {A}.
Arguments Flip {A}.

Fixpoint bind {A B} (m : M A) (f : A -> M B) : M B :=
  match m with
  | Ret a => f a
  | Flip k => Flip (fun c => bind (k c) f)
  end.

(* replay with the coins reported by the implementation (token 0 = false, anything else = true) *)
Fixpoint replay {A} (m : M A) (cs : list Z) : option (A * list Z) :=
  match m with
  | Ret a => Some (a, cs)
  | Flip k => match cs with
              | [] => None
              | c :: r => replay (k (negb (c =? 0))) r
              end
  end.

(* sum over all outcomes *)
Fixpoint msum {A} (f : A -> Z) (m : M A) : Z :=
  match m with
  | Ret a => f a
  | Flip k => msum f (k false) + msum f (k true)
  end.

Fixpoint dep {A} (m : M A) : nat :=
  match m with
  | Ret _ => O
  | Flip k => S (dep (k false))
  end.

Fixpoint uniform {A} (m : M A) : Prop :=
  match m with
  | Ret _ => True
  | Flip k => uniform (k false) /\ uniform (k true) /\ dep (k true) = dep (k false)
  end.

(* the outcome of the all-zero coins *)
Fixpoint first {A} (m : M A) : A :=
  match m with
  | Ret a => a
  | Flip k => first (k false)
  end.

(* all coin vectors of length n, as tokens *)
Fixpoint coins (n : nat) : list (list Z) :=
  match n with
  | O => [[]]
  | S n' => map (cons 0) (coins n') ++ map (cons 1) (coins n')
  end.

Definition zsum (l : list Z) : Z := fold_right Z.add 0 l.

(* ===================== outcomes ===================== *)
Inductive leaf {A} : M A -> A -> Prop :=
| leaf_ret a : leaf (Ret a) a
| leaf_flip k c a : leaf (k c) a -> leaf (Flip k) a.

Lemma leaf_ret_inv {A} (a b : A) : leaf (Ret a) b -> b = a.
Proof. inversion 1; auto. Qed.

Lemma leaf_flip_inv {A} (k : bool -> M A) b : leaf (Flip k) b -> exists c, leaf (k c) b.
Proof. inversion 1; subst; eauto. Qed.

Lemma leaf_bind {A B} (m : M A) (f : A -> M B) b :
  leaf (bind m f) b <-> exists a, leaf m a /\ leaf (f a) b.
Proof.
  split.
  - revert b; induction m as [a|k IH]; simpl; intros b H.
    + exists a; split; [constructor|assumption].
    + apply leaf_flip_inv in H as [c H]. apply IH in H as (a & H1 & H2).
      exists a; split; [econstructor; eassumption|assumption].
  - intros (a & H1 & H2). induction H1; simpl; auto. econstructor; eauto.
Qed.

(* every outcome the runner can produce from reported coins is a leaf *)
Lemma replay_leaf {A} (m : M A) : forall cs a r, replay m cs = Some (a, r) -> leaf m a.
Proof.
  induction m as [a0|k IH]; simpl; intros cs a r H.
  - inversion H; subst; constructor.
  - destruct cs as [|c cs]; [discriminate|]. econstructor. eapply IH; eauto.
Qed.

Lemma first_leaf {A} (m : M A) : leaf m (first m).
Proof. induction m as [a|k IH]; simpl; [constructor|]. econstructor. apply IH. Qed.

Lemma replay_bind {A B} (m : M A) (f : A -> M B) : forall cs,
  replay (bind m f) cs = match replay m cs with Some (a, r) => replay (f a) r | None => None end.
Proof.
  induction m as [a|k IH]; intro cs; simpl; [reflexivity|].
  destruct cs as [|c cs]; [reflexivity|]. apply IH.
Qed.

(* ===================== the sum over all outcomes ===================== *)
Lemma msum_ext_leaf {A} (f g : A -> Z) (m : M A) : (forall a, leaf m a -> f a = g a) -> msum f m = msum g m.
Proof.
  induction m as [a|k IH]; simpl; intro H.
  - apply H. constructor.
  - rewrite (IH false), (IH true); [reflexivity| |]; intros a L; apply H; econstructor; eassumption.
Qed.

Lemma msum_bind {A B} (f : B -> Z) (g : A -> M B) (m : M A) :
  msum f (bind m g) = msum (fun a => msum f (g a)) m.
Proof. induction m as [a|k IH]; simpl; [reflexivity|]. now rewrite !IH. Qed.

Lemma msum_plus {A} (f g : A -> Z) (m : M A) : msum (fun a => f a + g a) m = msum f m + msum g m.
Proof. induction m as [a|k IH]; simpl; [reflexivity|]. rewrite !IH. lia. Qed.

Lemma msum_scale {A} (c : Z) (f : A -> Z) (m : M A) : msum (fun a => c * f a) m = c * msum f m.
Proof. induction m as [a|k IH]; simpl; [reflexivity|]. rewrite !IH. lia. Qed.

Definition pow2 (n : nat) : Z := 2 ^ Z.of_nat n.

Lemma pow2_S n : pow2 (S n) = 2 * pow2 n.
Proof. unfold pow2. rewrite Nat2Z.inj_succ, Z.pow_succ_r by lia. reflexivity. Qed.
Lemma pow2_0 : pow2 0 = 1.
Proof. reflexivity. Qed.
Lemma pow2_add a b : pow2 (a + b) = pow2 a * pow2 b.
Proof. unfold pow2. rewrite Nat2Z.inj_add, Z.pow_add_r by lia. reflexivity. Qed.
Lemma pow2_pos n : 0 < pow2 n.
Proof. unfold pow2. apply Z.pow_pos_nonneg; lia. Qed.

(* a uniform tree has 2^dep outcomes *)
Lemma msum_const {A} (c : Z) (m : M A) : uniform m -> msum (fun _ => c) m = pow2 (dep m) * c.
Proof.
  induction m as [a|k IH]; cbn [msum dep uniform]; intro U.
  - rewrite pow2_0. lia.
  - destruct U as (U0 & U1 & E). rewrite (IH false U0), (IH true U1), E, pow2_S. lia.
Qed.

Lemma msum_add_const {A} (f : A -> Z) (c : Z) (m : M A) : uniform m ->
  msum (fun a => f a + c) m = msum f m + pow2 (dep m) * c.
Proof. intro U. rewrite msum_plus, msum_const by assumption. reflexivity. Qed.

(* ===================== depth ===================== *)
Lemma dep_bind {A B} (m : M A) (f : A -> M B) : dep (bind m f) = (dep m + dep (f (first m)))%nat.
Proof. induction m as [a|k IH]; simpl; [reflexivity|]. now rewrite IH. Qed.

Lemma uniform_bind {A B} (m : M A) (f : A -> M B) (d : nat) :
  uniform m -> (forall a, leaf m a -> uniform (f a) /\ dep (f a) = d) -> uniform (bind m f).
Proof.
  induction m as [a|k IH]; simpl; intros U H.
  - apply H. constructor.
  - destruct U as (U0 & U1 & E).
    assert (H0 : forall a, leaf (k false) a -> uniform (f a) /\ dep (f a) = d) by (intros a L; apply H; econstructor; eassumption).
    assert (H1 : forall a, leaf (k true) a -> uniform (f a) /\ dep (f a) = d) by (intros a L; apply H; econstructor; eassumption).
    split; [apply IH; assumption|]. split; [apply IH; assumption|].
    rewrite !dep_bind, E. f_equal.
    destruct (H0 _ (first_leaf (k false))) as [_ ->]. destruct (H1 _ (first_leaf (k true))) as [_ ->]. reflexivity.
Qed.

(* every run of a uniform tree consumes exactly dep coins *)
Lemma replay_uniform {A} (m : M A) : uniform m -> forall cs a r, replay m cs = Some (a, r) ->
  length cs = (dep m + length r)%nat.
Proof.
  induction m as [a0|k IH]; simpl; intros U cs a r H.
  - inversion H; subst. reflexivity.
  - destruct cs as [|c cs]; [discriminate|]. destruct U as (U0 & U1 & E).
    destruct (negb (c =? 0)); [apply (IH true U1) in H; rewrite E in H|apply (IH false U0) in H]; simpl; lia.
Qed.

(* ... and is defined on every vector of at least dep coins *)
Lemma replay_total {A} (m : M A) : uniform m -> forall cs, (dep m <= length cs)%nat ->
  exists a, replay m cs = Some (a, skipn (dep m) cs).
Proof.
  induction m as [a0|k IH]; simpl; intros U cs H.
  - eexists; reflexivity.
  - destruct cs as [|c cs]; [simpl in H; lia|]. destruct U as (U0 & U1 & E). simpl in H.
    destruct (negb (c =? 0)).
    + rewrite <- E. apply (IH true U1). lia.
    + apply (IH false U0). lia.
Qed.

(* the sum over all outcomes is the sum over all coin vectors of length dep of the replayed outcome *)
Definition outcome {A} (f : A -> Z) (m : M A) (cs : list Z) : Z :=
  match replay m cs with Some (a, _) => f a | None => 0 end.

Lemma zsum_app a b : zsum (a ++ b) = zsum a + zsum b.
Proof. unfold zsum. induction a; simpl; lia. Qed.

Lemma msum_enum {A} (f : A -> Z) (m : M A) : uniform m ->
  msum f m = zsum (map (outcome f m) (coins (dep m))).
Proof.
  induction m as [a|k IH]; simpl; intro U.
  - unfold outcome. simpl. lia.
  - destruct U as (U0 & U1 & E). rewrite map_app, zsum_app, !map_map.
    rewrite (IH false U0), (IH true U1), E. f_equal.
Qed.

Lemma coins_length n : length (coins n) = Z.to_nat (pow2 n).
Proof.
  induction n as [|n IH]; [reflexivity|]. simpl coins. rewrite app_length, !map_length, IH, pow2_S.
  pose proof (pow2_pos n). lia.
Qed.

Lemma coins_spec n cs : In cs (coins n) -> length cs = n.
Proof.
  revert cs; induction n as [|n IH]; simpl; intros cs H.
  - destruct H as [<-|[]]. reflexivity.
  - apply in_app_or in H as [H|H]; apply in_map_iff in H as (t & <- & H); simpl; f_equal; auto.
Qed.

(* ===================== same shape under all coins ===================== *)
Inductive msim {A B} (R : A -> B -> Prop) : M A -> M B -> Prop :=
| ms_ret a b : R a b -> msim R (Ret a) (Ret b)
| ms_flip k1 k2 : (forall c c', msim R (k1 c) (k2 c')) -> msim R (Flip k1) (Flip k2).

Lemma msim_bind {A B A' B'} (R : A -> B -> Prop) (S : A' -> B' -> Prop) m1 m2 f g :
  msim R m1 m2 -> (forall a b, R a b -> msim S (f a) (g b)) -> msim S (bind m1 f) (bind m2 g).
Proof.
  intros H HF. induction H as [a b r|k1 k2 H IH]; simpl; [now apply HF|].
  constructor. intros c c'. apply IH.
Qed.

Lemma msim_impl {A B} (R R' : A -> B -> Prop) m1 m2 : (forall a b, R a b -> R' a b) -> msim R m1 m2 -> msim R' m1 m2.
Proof. intros HR H. induction H; constructor; auto. Qed.

Lemma msim_dep {A B} (R : A -> B -> Prop) m1 m2 : msim R m1 m2 -> dep m1 = dep m2.
Proof. induction 1 as [|k1 k2 H IH]; simpl; [reflexivity|]. f_equal. apply IH. Qed.

Lemma msim_leaf {A B} (R : A -> B -> Prop) m1 m2 : msim R m1 m2 -> forall a b, leaf m1 a -> leaf m2 b -> R a b.
Proof.
  induction 1 as [a0 b0 r|k1 k2 H IH]; intros a b La Lb.
  - apply leaf_ret_inv in La, Lb. now subst.
  - apply leaf_flip_inv in La as [c La]. apply leaf_flip_inv in Lb as [c' Lb]. eapply IH; eauto.
Qed.

Lemma msim_uniform_l {A B} (R : A -> B -> Prop) m1 m2 : msim R m1 m2 -> uniform m1.
Proof.
  induction 1 as [|k1 k2 H IH]; simpl; [exact I|].
  split; [apply (IH false false)|]. split; [apply (IH true false)|].
  rewrite (msim_dep _ _ _ (H true false)), (msim_dep _ _ _ (H false false)). reflexivity.
Qed.

(* the tower rule for sums: if every continuation has the same depth d and sums to 2^d * h(outcome) ... *)
Lemma msum_bind_scaled {A B} (f : B -> Z) (g : A -> M B) (h : A -> Z) (m : M A) (d : nat) :
  (forall a, leaf m a -> dep (g a) = d /\ msum f (g a) = pow2 d * h a) ->
  dep (bind m g) = (dep m + d)%nat /\ msum f (bind m g) = pow2 d * msum h m.
Proof.
  intro H. split.
  - rewrite dep_bind. f_equal. apply H, first_leaf.
  - rewrite msum_bind, <- msum_scale. apply msum_ext_leaf. intros a L. apply H, L.
Qed.
