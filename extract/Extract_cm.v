From Coq Require Import extraction.ExtrOcamlBasic.
From DS Require Import CountMinDefs.
Extraction "model_cm.ml" CountMinDefs.run.
