From Coq Require Import extraction.ExtrOcamlBasic.
From DS Require Import FiCodecDefs.
Extraction "model_ficodec.ml" FiCodecDefs.run.
