From Coq Require Import extraction.ExtrOcamlBasic.
From DS Require Import CpcDefs.
Extraction "model_cpc.ml" CpcDefs.run.
