From Coq Require Import extraction.ExtrOcamlBasic.
From DS Require Import CpcRun.
Extraction "model_cpc.ml" CpcRun.run.
