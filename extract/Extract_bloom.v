From Coq Require Import extraction.ExtrOcamlBasic.
From DS Require Import BloomDefs.
Extraction "model_bloom.ml" BloomDefs.run.
