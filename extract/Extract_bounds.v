(* Extraction of the binary64 instance of the estimator / confidence-bound model (C06). *)
From Coq Require Import extraction.ExtrOcamlBasic extraction.ExtrOCamlFloats extraction.ExtrOCamlInt63.
From DS Require Import BoundsDefs.
Extraction "model_bounds.ml" BoundsDefs.run.
