From Coq Require Import extraction.ExtrOcamlBasic.
From DS Require Import TupleCodecDefs.
Extraction "model_tuplecodec.ml" TupleCodecDefs.run.
