From Coq Require Import extraction.ExtrOcamlBasic.
From DS Require Import EbppsCodecDefs.
Extraction "model_ebppscodec.ml" EbppsCodecDefs.run.
