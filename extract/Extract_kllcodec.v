From Coq Require Import extraction.ExtrOcamlBasic.
From DS Require Import KllCodecDefs.
Extraction "model_kllcodec.ml" KllCodecDefs.crun.
