From Coq Require Import extraction.ExtrOcamlBasic.
From DS Require Import ThetaCodecDefs.
Extraction "model_thetacodec.ml" ThetaCodecDefs.run.
