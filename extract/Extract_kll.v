From Coq Require Import extraction.ExtrOcamlBasic.
From DS Require Import KllDefs.
Extraction "model_kll.ml" KllDefs.run.
