From Coq Require Import extraction.ExtrOcamlBasic.
From DS Require Import DensityDefs.
Extraction "model_density.ml" DensityDefs.run.
