From Coq Require Import extraction.ExtrOcamlBasic.
From DS Require Import FiDefs.
Extraction "model_fi.ml" FiDefs.run.
