From Coq Require Import extraction.ExtrOcamlBasic.
From DS Require Import CpcImageRun.
Extraction "model_cpccodec.ml" CpcImageRun.run.
