From Coq Require Import extraction.ExtrOcamlBasic extraction.ExtrOCamlFloats extraction.ExtrOCamlInt63.
From DS Require Import VarOptDefs.
Extraction "model_varopt.ml" VarOptDefs.run.
