(* Extraction of the binary64 instance of the t-digest model; the runner passes the C library's log as [ln]. *)
From Coq Require Import extraction.ExtrOcamlBasic extraction.ExtrOCamlFloats extraction.ExtrOCamlInt63.
From DS Require Import TDigestDefs.
Extraction "model_tdigest.ml" TDigestDefs.run.
