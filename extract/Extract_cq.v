From Coq Require Import extraction.ExtrOcamlBasic.
From DS Require Import CqDefs.
Extraction "model_cq.ml" CqDefs.run.
