From Coq Require Import extraction.ExtrOcamlBasic.
From DS Require Import ThetaDefs.
Extraction "model_theta.ml" ThetaDefs.run.
