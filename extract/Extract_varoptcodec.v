From Coq Require Import extraction.ExtrOcamlBasic.
From DS Require Import VarOptCodecDefs.
Extraction "model_varoptcodec.ml" VarOptCodecDefs.run.
