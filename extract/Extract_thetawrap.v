From Coq Require Import extraction.ExtrOcamlBasic.
From DS Require Import ThetaWrapDefs.
Extraction "model_thetawrap.ml" ThetaWrapDefs.run.
