From Coq Require Import extraction.ExtrOcamlBasic.
From DS Require Import HllCodecDefs.
Extraction "model_hllcodec.ml" HllCodecDefs.crun.
