From Coq Require Import extraction.ExtrOcamlBasic.
From DS Require Import CqCodecDefs.
Extraction "model_cqcodec.ml" CqCodecDefs.crun.
