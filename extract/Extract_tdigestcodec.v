From Coq Require Import extraction.ExtrOcamlBasic.
From DS Require Import TDigestCodecDefs.
Extraction "model_tdigestcodec.ml" TDigestCodecDefs.run.
