From Coq Require Import extraction.ExtrOcamlBasic.
From DS Require Import LedgerDefs.
Extraction "model_ledger.ml" LedgerDefs.run.
