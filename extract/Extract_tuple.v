From Coq Require Import extraction.ExtrOcamlBasic.
From DS Require Import TupleDefs.
Extraction "model_tuple.ml" TupleDefs.run.
