From Coq Require Import extraction.ExtrOcamlBasic extraction.ExtrOCamlFloats extraction.ExtrOCamlInt63.
From DS Require Import EbppsDefs.
Extraction "model_ebpps.ml" EbppsDefs.run.
