From Coq Require Import extraction.ExtrOcamlBasic.
From DS Require Import ThetaSetDefs.
Extraction "model_thetaset.ml" ThetaSetDefs.run.
