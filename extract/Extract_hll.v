From Coq Require Import extraction.ExtrOcamlBasic.
From DS Require Import HllDefs.
Extraction "model_hll.ml" HllDefs.run.
