From Coq Require Import extraction.ExtrOcamlBasic.
From DS Require Import CodecCmDefs.
Extraction "model_cmcodec.ml" CodecCmDefs.run.
