From Coq Require Import extraction.ExtrOcamlBasic.
From DS Require Import BloomCodecDefs.
Extraction "model_bloomcodec.ml" BloomCodecDefs.run.
