(* driver_common.ml — generic runner for an extracted family model.
   Concatenated after "open Model_<fam>" by the build; expects [run : (z list * z list) list -> (z list * z list) list].
   Input file: lines "C <id>" (new case), "O tok* [| tok*]" (operation with optional env tokens).
   Tokens are hexadecimal integers with an optional leading '-'.
   Output: "C <id>", then per operation "R tok*" and, when non-empty, "S tok*". *)

let pos_of_hex (s : string) : positive option =
  (* build a positive from hex digits, most significant first *)
  let acc = ref None in
  String.iter (fun ch ->
    let d = match ch with
      | '0'..'9' -> Char.code ch - 48
      | 'a'..'f' -> Char.code ch - 87
      | 'A'..'F' -> Char.code ch - 55
      | _ -> failwith ("bad hex token: " ^ s) in
    for b = 3 downto 0 do
      let bit = (d lsr b) land 1 = 1 in
      acc := (match !acc, bit with
              | None, false -> None
              | None, true -> Some XH
              | Some p, false -> Some (XO p)
              | Some p, true -> Some (XI p))
    done) s;
  !acc

let z_of_token (s : string) : z =
  if String.length s = 0 then failwith "empty token" else
  let neg = s.[0] = '-' in
  let body = if neg then String.sub s 1 (String.length s - 1) else s in
  match pos_of_hex body with
  | None -> Z0
  | Some p -> if neg then Zneg p else Zpos p

let hex_of_pos (p : positive) : string =
  (* collect bits LSB first *)
  let bits = ref [] in
  let rec go p = match p with
    | XH -> bits := true :: !bits
    | XO q -> bits := false :: !bits; go q
    | XI q -> bits := true :: !bits; go q in
  go p;
  (* !bits is now MSB first *)
  let l = !bits in
  let n = List.length l in
  let pad = (4 - n mod 4) mod 4 in
  let l = (List.init pad (fun _ -> false)) @ l in
  let buf = Buffer.create 16 in
  let rec emit l = match l with
    | a :: b :: c :: d :: r ->
        let v = (if a then 8 else 0) + (if b then 4 else 0) + (if c then 2 else 0) + (if d then 1 else 0) in
        Buffer.add_char buf "0123456789abcdef".[v]; emit r
    | [] -> ()
    | _ -> assert false in
  emit l; Buffer.contents buf

let token_of_z (z : z) : string = match z with
  | Z0 -> "0"
  | Zpos p -> hex_of_pos p
  | Zneg p -> "-" ^ hex_of_pos p

let split_tokens (s : string) : string list =
  List.filter (fun t -> t <> "") (String.split_on_char ' ' s)

let parse_op (rest : string) : z list * z list =
  match String.index_opt rest '|' with
  | None -> (List.map z_of_token (split_tokens rest), [])
  | Some i ->
      let a = String.sub rest 0 i and b = String.sub rest (i + 1) (String.length rest - i - 1) in
      (List.map z_of_token (split_tokens a), List.map z_of_token (split_tokens b))

let print_line tag (l : z list) =
  print_string tag;
  List.iter (fun z -> print_char ' '; print_string (token_of_z z)) l;
  print_newline ()

let main (run : (z list * z list) list -> (z list * z list) list) =
  let ic = open_in Sys.argv.(1) in
  let cur_id = ref None and cur_ops = ref [] in
  let flush_case () =
    match !cur_id with
    | None -> ()
    | Some id ->
        print_endline ("C " ^ id);
        let outs = run (List.rev !cur_ops) in
        List.iter (fun (r, s) -> print_line "R" r; if s <> [] then print_line "S" s) outs;
        cur_ops := [] in
  (try
     while true do
       let line = input_line ic in
       let n = String.length line in
       if n >= 2 && line.[0] = 'C' then begin
         flush_case (); cur_id := Some (String.trim (String.sub line 1 (n - 1)))
       end else if n >= 1 && line.[0] = 'O' then
         cur_ops := parse_op (String.sub line 1 (n - 1)) :: !cur_ops
       else ()
     done
   with End_of_file -> ());
  flush_case ()
