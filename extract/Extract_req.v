From Coq Require Import extraction.ExtrOcamlBasic.
From DS Require Import ReqDefs.
Extraction "model_req.ml" ReqDefs.run.
