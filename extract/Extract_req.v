(* the binary64 rank bounds of the REQ model are extracted to OCaml floats *)
From Coq Require Import extraction.ExtrOcamlBasic extraction.ExtrOCamlFloats extraction.ExtrOCamlInt63.
From DS Require Import ReqDefs.
Extraction "model_req.ml" ReqDefs.run.
