(* ReqCodecDefs is built on ReqDefs, whose binary64 rank bounds extract to OCaml floats *)
From Coq Require Import extraction.ExtrOcamlBasic extraction.ExtrOCamlFloats extraction.ExtrOCamlInt63.
From DS Require Import ReqCodecDefs.
Extraction "model_reqcodec.ml" ReqCodecDefs.crun.
