From Coq Require Import extraction.ExtrOcamlBasic.
From DS Require Import ReqCodecDefs.
Extraction "model_reqcodec.ml" ReqCodecDefs.crun.
