From Coq Require Import extraction.ExtrOcamlBasic.
From DS Require Import HllUnionDefs.
Extraction "model_hllunion.ml" HllUnionDefs.run.
