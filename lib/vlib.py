# vlib.py — shared machinery of the /verif checks (build, prove, extract, correspond, oracle, evidence).
import fcntl, hashlib, json, os, re, shutil, subprocess, sys, time, random

VERIF = os.path.dirname(os.path.dirname(os.path.abspath(__file__)))
REPO = os.environ.get('VERIF_REPO', '/repo')
COQ = os.path.join(VERIF, 'coq')
BUILD = os.path.join(VERIF, '_build')
GUARD = 'DATASKETCHES_VERIF'
PER_FILE_TIMEOUT = 600   # seconds per .v file (a hanging proof is a broken obligation, not a hung check)
INCLUDE_DIRS = ['common', 'count', 'cpc', 'density', 'fi', 'filters', 'hll', 'kll', 'quantiles', 'req',
                'sampling', 'tdigest', 'theta', 'tuple']
FORBIDDEN = re.compile(r'\b(Admitted|admit|Axiom|Axioms|Parameter|Parameters|Conjecture|Conjectures|'
                       r'Admit Obligations|give_up)\b|Unset Guard|bypass_check|type-in-type|impredicative-set|'
                       r'Unset Positivity|Unset Universe')

def log(*a):
    print(*a, flush=True)

def sh(cmd, cwd=None, timeout=None, env=None, input=None):
    t0 = time.time()
    try:
        p = subprocess.run(cmd, shell=isinstance(cmd, str), cwd=cwd, stdout=subprocess.PIPE, stderr=subprocess.STDOUT,
                           timeout=timeout, env=env, input=input)
        return p.returncode, p.stdout.decode('utf-8', 'replace'), time.time() - t0
    except subprocess.TimeoutExpired as e:
        out = (e.stdout or b'').decode('utf-8', 'replace')
        return 124, out + '\n[timeout]', time.time() - t0

class Lock:
    def __init__(self, name):
        os.makedirs(BUILD, exist_ok=True)
        self.path = os.path.join(BUILD, name + '.lock')
    def __enter__(self):
        self.f = open(self.path, 'w')
        fcntl.flock(self.f, fcntl.LOCK_EX)
        return self
    def __exit__(self, *a):
        fcntl.flock(self.f, fcntl.LOCK_UN)
        self.f.close()

def write_if_changed(path, text):
    try:
        if open(path).read() == text:
            return False
    except FileNotFoundError:
        pass
    os.makedirs(os.path.dirname(path), exist_ok=True)
    with open(path, 'w') as f:
        f.write(text)
    return True

# ---------------------------------------------------------------------------
# Coq side
# ---------------------------------------------------------------------------

def coq_sources():
    out = []
    for root, _, files in os.walk(COQ):
        for f in files:
            if f.endswith('.v'):
                out.append(os.path.join(root, f))
    for f in os.listdir(os.path.join(VERIF, 'extract')):
        if f.endswith('.v'):
            out.append(os.path.join(VERIF, 'extract', f))
    return sorted(out)

def strip_comments(text):
    # remove (* ... *) comments, nested
    out = []; depth = 0; i = 0; n = len(text)
    while i < n:
        if text.startswith('(*', i):
            depth += 1; i += 2
        elif text.startswith('*)', i) and depth > 0:
            depth -= 1; i += 2
        else:
            if depth == 0:
                out.append(text[i])
            i += 1
    return ''.join(out)

def scan_forbidden():
    hits = []
    for p in coq_sources():
        body = strip_comments(open(p).read())
        for ln, line in enumerate(body.split('\n'), 1):
            if FORBIDDEN.search(line):
                hits.append('%s: %s' % (os.path.relpath(p, VERIF), line.strip()[:100]))
    return hits

def run_translators(names):
    """names: list of translator module names under /verif/translators; each has generate(REPO) -> {relpath: text}.
       Returns list of error strings (a translator failure is a broken obligation)."""
    errs = []
    sys.path.insert(0, os.path.join(VERIF, 'translators'))
    for n in names:
        try:
            mod = __import__(n)
            files = mod.generate(REPO)
            for rel, text in files.items():
                write_if_changed(os.path.join(COQ, rel), text)
        except Exception as e:  # noqa
            errs.append('translator %s failed: %s' % (n, e))
    return errs

def ensure_coqproject():
    """_CoqProject lists every .v under coq/ (dependency order is computed by coqdep through coq_makefile)."""
    files = []
    for root, _, fs in os.walk(COQ):
        for f in fs:
            if f.endswith('.v') and not f.startswith('.'):
                files.append(os.path.relpath(os.path.join(root, f), COQ))
    text = '-Q . DS\n' + '\n'.join(sorted(files)) + '\n'
    return write_if_changed(os.path.join(COQ, '_CoqProject'), text)

def coq_make(targets, timeout=1800):
    """Build the given .vo targets (full .vo build). The global lock is held only while _CoqProject/Makefile are regenerated;
       the build itself runs under a per-target-set lock, so that one family's long compile does not block the other checks
       (after setup.sh everything is up to date and make is a no-op). Returns (ok, log)."""
    if not targets:
        return True, ''
    with Lock('coq'):
        ensure_coqproject()
        if not os.path.exists(os.path.join(COQ, 'Makefile')) or \
           os.path.getmtime(os.path.join(COQ, 'Makefile')) < os.path.getmtime(os.path.join(COQ, '_CoqProject')):
            rc, out, _ = sh('coq_makefile -f _CoqProject -o Makefile', cwd=COQ, timeout=120)
            if rc != 0:
                return False, out
    tg = ' '.join(t + '.vo' for t in targets)
    with Lock('coqmake_' + hashlib.sha1(tg.encode()).hexdigest()[:12]):
        rc, out, dt = sh('timeout %d make -k -j8 COQC="prlimit --as=17179869184 timeout %d coqc" %s' % (timeout, PER_FILE_TIMEOUT, tg), cwd=COQ, timeout=timeout + 30)
        return rc == 0, out

def coq_check_props(propfile, timeout=900):
    """Re-run coqc on a property file, return dict(ok, theorems, assumptions, log)."""
    path = os.path.join(COQ, propfile + '.v')
    src = strip_comments(open(path).read())
    theorems = re.findall(r'^\s*(?:Theorem|Corollary)\s+([A-Za-z0-9_\']+)', src, re.M)
    rc, out, dt = sh('timeout %d coqc -Q . DS %s.v' % (timeout, propfile), cwd=COQ, timeout=timeout + 30)
    # parse Print Assumptions output: blocks "Closed under the global context" or "Axioms:\n name : type"
    printed = re.findall(r'^\s*Print Assumptions\s+([A-Za-z0-9_\'.]+)\s*\.', src, re.M)
    blocks = []
    cur = None
    for line in out.split('\n'):
        if line.startswith('Closed under the global context'):
            blocks.append([]); cur = None
        elif line.startswith('Axioms:'):
            cur = []; blocks.append(cur)
        elif cur is not None:
            m = re.match(r'^([A-Za-z0-9_\'.]+)\s*:', line)
            if m:
                cur.append(m.group(1))
            elif line.strip() == '':
                pass
    assumptions = {}
    for i, name in enumerate(printed):
        assumptions[name] = blocks[i] if i < len(blocks) else None
    return dict(ok=(rc == 0), theorems=theorems, assumptions=assumptions, log=out, wall=dt,
                cmd='coqc -Q . DS %s.v  (after make -k -j16 %s.vo; full .vo build)' % (propfile, propfile))

# ---------------------------------------------------------------------------
# model runner (extracted OCaml) and harness (C++)
# ---------------------------------------------------------------------------

def build_model(fam, bdir):
    """fam: dict with 'extract' (Extract_x.v under extract/) and 'model' (basename of the .ml it writes)."""
    os.makedirs(bdir, exist_ok=True)
    ex = fam['extract']; model = fam['model']
    shutil.copy(os.path.join(VERIF, 'extract', ex), os.path.join(bdir, ex))
    rc, out, _ = sh('timeout 600 coqc -Q %s DS %s' % (COQ, ex), cwd=bdir, timeout=630)
    if rc != 0:
        return None, 'extraction failed:\n' + out
    main = 'main_%s.ml' % model
    with open(os.path.join(bdir, main), 'w') as f:
        f.write('open %s\n' % (model[0].upper() + model[1:]))
        f.write(open(os.path.join(VERIF, 'extract', 'driver_common.ml')).read())
        f.write('\nlet () = main %s\n' % fam.get('run', 'run'))
    flags = fam.get('ocaml_flags', '')
    rc, out, _ = sh('ocamlfind ocamlopt %s -w -a %s.mli %s.ml %s -o %s' % (flags, model, model, main, model),
                    cwd=bdir, timeout=600)
    if rc != 0:
        return None, 'ocaml build failed:\n' + out
    return os.path.join(bdir, model), ''

def harness_flags(sanitize=True):
    inc = ' '.join('-I%s/%s/include' % (REPO, d) for d in INCLUDE_DIRS)
    inc += ' -I%s/common/test -I%s/harness' % (REPO, VERIF)
    san = '-fsanitize=address,undefined -fno-sanitize-recover=all' if sanitize else ''
    return '-std=gnu++11 -O1 -g -D%s %s %s -Wno-deprecated-declarations' % (GUARD, san, inc)

def build_harness(fam, bdir, sanitize=True):
    os.makedirs(bdir, exist_ok=True)
    src = os.path.join(VERIF, 'harness', fam['harness'])
    exe = os.path.join(bdir, os.path.splitext(fam['harness'])[0])
    extra = fam.get('cxx_flags', '')
    rc, out, dt = sh('g++ %s %s %s -o %s' % (harness_flags(sanitize), extra, src, exe), timeout=900)
    if rc != 0:
        return None, 'harness build failed:\n' + out[-6000:]
    return exe, ''

def tok(v):
    v = int(v)
    return ('-%x' % -v) if v < 0 else ('%x' % v)

def untok(s):
    return -int(s[1:], 16) if s.startswith('-') else int(s, 16)

def write_script(path, cases, envs=None):
    """cases: list of dict(id, ops); envs: optional {case_id: [env tokens or None per op]}"""
    with open(path, 'w') as f:
        for c in cases:
            f.write('C %s\n' % c['id'])
            ev = envs.get(c['id']) if envs else None
            for i, op in enumerate(c['ops']):
                s = 'O ' + ' '.join(tok(x) for x in op)
                if ev and i < len(ev) and ev[i] is not None:
                    s += ' | ' + ' '.join(tok(x) for x in ev[i])
                f.write(s + '\n')

def parse_transcript(text):
    """-> {case_id: [ {E:[..],R:[..],F:[..],S:[..]} per op ]} and order list; an op record is closed by its R line
       (E precedes R; F and S follow R)."""
    res = {}; order = []; cur = None; pend = {}
    for line in text.split('\n'):
        if not line:
            continue
        tag = line[0]
        if tag == 'C' and (len(line) == 1 or line[1] == ' '):
            cid = line[1:].strip()
            cur = []; res[cid] = cur; order.append(cid); pend = {}
        elif tag in 'ERFS' and (len(line) == 1 or line[1] == ' ') and cur is not None:
            try:
                vals = [untok(x) for x in line[1:].split()]
            except ValueError:
                continue
            if tag == 'E':
                pend = {'E': vals}
            elif tag == 'R':
                rec = dict(pend); rec['R'] = vals; cur.append(rec); pend = {}
            else:
                if cur:
                    cur[-1][tag] = vals
    return res, order

ASAN_ENV = 'detect_leaks=1:abort_on_error=0:exitcode=97:max_allocation_size_mb=512'

def run_impl(exe, cases, bdir, tag='impl', timeout=600):
    """Run the harness on the cases. Returns (transcripts, crashes) where crashes = {case_id: text}."""
    env = dict(os.environ)
    env['ASAN_OPTIONS'] = ASAN_ENV
    env['UBSAN_OPTIONS'] = 'print_stacktrace=1:halt_on_error=1:exitcode=97'
    remaining = list(cases); result = {}; crashes = {}
    rounds = 0; timeouts = 0
    while remaining and rounds < 25:
        rounds += 1
        spath = os.path.join(bdir, '%s_%d.script' % (tag, rounds))
        write_script(spath, remaining)
        # a hang of the implementation is a failure of the case that hangs, not of the check: after the first timeout the
        # later rounds get a short limit, and after three hangs the rest of the batch is abandoned (reported as not run)
        rc, out, dt = sh([exe, spath], timeout=(timeout if timeouts == 0 else min(timeout, 120)), env=env)
        if rc == 124:
            timeouts += 1
            out += '\n[the harness did not finish within its time limit: the implementation hangs or loops on this case]'
            if timeouts >= 3:
                tr, order = parse_transcript(out)
                if order:
                    crashes[order[-1]] = ('[exit %d]\n' % rc) + out[-3000:]
                break
        tr, order = parse_transcript(out)
        if rc == 0:
            result.update(tr); break
        # crash or timeout: the last case started is the culprit
        if not order:
            crashes[remaining[0]['id']] = out[-3000:]
            remaining = remaining[1:]
            continue
        bad = order[-1]
        for cid in order[:-1]:
            result[cid] = tr[cid]
        crashes[bad] = ('[exit %d]\n' % rc) + out[-3000:]
        result[bad] = tr.get(bad, [])
        idx = [c['id'] for c in remaining].index(bad)
        remaining = remaining[idx + 1:]
    return result, crashes

def _big_stack():
    # the extracted runners recurse over the operation list (not tail-recursive): give them the largest stack allowed
    import resource
    try:
        soft, hard = resource.getrlimit(resource.RLIMIT_STACK)
        resource.setrlimit(resource.RLIMIT_STACK, (hard, hard))
        # ... but never more than 16 GiB of address space per runner process (a runaway case must not take the machine down)
        resource.setrlimit(resource.RLIMIT_AS, (16 << 30, 16 << 30))
    except Exception:
        pass

def run_model(exe, cases, impl_tr, bdir, tag='model', timeout=900, shards=8):
    """Run the extracted model; env tokens for each op are taken from the implementation transcript."""
    envs = {}
    for c in cases:
        recs = impl_tr.get(c['id'], [])
        envs[c['id']] = [(recs[i].get('E') if i < len(recs) else None) for i in range(len(c['ops']))]
    # shard for parallelism
    shards = max(1, min(shards, len(cases)))
    procs = []
    for k in range(shards):
        part = cases[k::shards]
        spath = os.path.join(bdir, '%s_%d.script' % (tag, k))
        write_script(spath, part, envs)
        procs.append(subprocess.Popen([exe, spath], stdout=subprocess.PIPE, stderr=subprocess.STDOUT, preexec_fn=_big_stack))
    result = {}; errs = []
    for p in procs:
        try:
            out, _ = p.communicate(timeout=timeout)
        except subprocess.TimeoutExpired:
            p.kill(); out, _ = p.communicate(); errs.append('model runner timeout')
        tr, order = parse_transcript(out.decode('utf-8', 'replace'))
        result.update(tr)
        if p.returncode != 0:
            errs.append('model runner exit %s: %s' % (p.returncode, out.decode('utf-8', 'replace')[-500:]))
    return result, errs

def compare_case(case, irecs, mrecs):
    """First difference between the implementation's and the model's R lines, or None."""
    n = len(case['ops'])
    for i in range(n):
        ir = irecs[i]['R'] if i < len(irecs) else None
        mr = mrecs[i]['R'] if i < len(mrecs) else None
        if ir != mr:
            return dict(op_index=i, op=case['ops'][i], impl=ir, model=mr)
    return None

# ---------------------------------------------------------------------------
# known findings
# ---------------------------------------------------------------------------

def load_known():
    p = os.path.join(VERIF, 'known_findings.json')
    try:
        return json.load(open(p))
    except FileNotFoundError:
        return {'findings': [], 'fixed': []}

def is_known(prop, sig):
    for f in load_known().get('findings', []):
        if f.get('property') == prop and f.get('signature') == sig:
            return f
    return None

# ---------------------------------------------------------------------------
# the check protocol
# ---------------------------------------------------------------------------

MAX_REPORTS = 3

class Check:
    """One property check. spec (module) provides:
         PROP, COQ_PROPS [names], TRANSLATORS [names] (optional), FAMILIES [dict(name, harness, extract, model, gen, oracle,
         nontrivial)], TRUSTED [strings], ASSUMPTIONS [strings], RULE (string)
       gen(rng, tier) -> list of cases (dict id, ops, tags)
       oracle(case, impl_recs, model_recs) -> list of dict(sig, what)   (property predicates on the implementation's outputs)
    """
    def __init__(self, spec, tier, seed):
        self.spec = spec; self.tier = tier; self.seed = seed
        self.prop = spec.PROP
        self.tag = os.environ.get('VERIF_BUILD_TAG', '')   # lets a scratch run (mutation/seeded test) coexist with a regular run
        self.bdir = os.path.join(BUILD, self.prop + self.tag)
        os.makedirs(self.bdir, exist_ok=True)
        self.rdir = os.path.join(BUILD, 'replays')
        os.makedirs(self.rdir, exist_ok=True)
        self.violations = []      # (replay_path, suffix)
        self.known = []
        self.notes = []
        self.t0 = time.time()
        self.cov = dict(evaluations=0, distinct_nontrivial=0, traces_validated_against_impl=0, samples=[],
                        obligations=0, discharged=0, families={})

    # -- replay files
    def write_replay(self, fam, case, reason, detail, extra=None):
        k = len(self.violations) + len(self.known)
        name = '%s%s_%s_%d_%d.replay' % (self.prop, self.tag, fam['name'] if fam else 'proof', self.seed, k)
        path = os.path.join(self.rdir, name)
        with open(path, 'w') as f:
            f.write('# property %s\n# family %s\n# reason %s\n' % (self.prop, fam['name'] if fam else '-', reason))
            for line in json.dumps(compact_detail(detail), indent=1, default=str).split('\n'):
                f.write('# ' + line[:600] + '\n')
            if extra:
                for line in str(extra).split('\n'):
                    f.write('# ' + line + '\n')
            if case is not None:
                f.write('C %s\n' % case['id'])
                for op in case['ops']:
                    f.write('O ' + ' '.join(tok(x) for x in op) + '\n')
        return path

    def report(self, fam, case, reason, detail, failing_input, sig=None, extra=None):
        """Register a violation (or a known finding)."""
        if sig is not None:
            kf = is_known(self.prop, sig)
            if kf:
                if sig not in [k[0] for k in self.known]:
                    self.known.append((sig, kf.get('what', reason)))
                return
        path = self.write_replay(fam, case, reason, detail, extra)
        self.violations.append((path, '' if failing_input else ' no-failing-input-found'))

    # -- proof obligations
    def proofs(self):
        spec = self.spec
        errs = run_translators(getattr(spec, 'TRANSLATORS', []))
        forb = scan_forbidden()
        if forb:
            errs.append('forbidden constructs in the development: ' + '; '.join(forb[:5]))
        ok, mlog = coq_make(spec.COQ_PROPS)
        obligations = 0; discharged = 0; tb = []; broken = []
        cmds = []
        for pf in spec.COQ_PROPS:
            r = coq_check_props(pf)
            cmds.append(r['cmd'])
            n = len(r['theorems']) + getattr(spec, 'EXTRA_OBLIGATIONS', {}).get(pf, 0)
            obligations += n
            if r['ok']:
                discharged += n      # (a failed dependency makes the re-run of coqc on the property file fail too)
            else:
                broken.append((pf, ((r['log'] or '')[-2000:] + '\n' + (mlog or '')[-1500:])))
            axs = set()
            for th, a in r['assumptions'].items():
                if a is None:
                    continue
                for x in a:
                    axs.add(x)
            unprinted = [t for t in r['theorems'] if t not in r['assumptions']]
            if unprinted:
                errs.append('%s: theorems without Print Assumptions: %s' % (pf, ', '.join(unprinted)))
            tb.append('%s: %d theorems; axioms reported by Print Assumptions: %s' %
                      (pf, len(r['theorems']), ', '.join(sorted(axs)) if axs else 'none (closed under the global context)'))
            bad_ax = [a for a in axs if not allowed_axiom(a)]
            if bad_ax:
                errs.append('%s depends on axioms outside the standard library: %s' % (pf, ', '.join(bad_ax)))
        if self.tier == 'thorough' and not broken:
            # independent re-check of the compiled property files and everything they depend on (coqchk), axioms listed
            for pf in spec.COQ_PROPS:
                if True:
                    rc, out, dt = sh('timeout 1500 coqchk -o -silent -Q . DS DS.%s' % pf, cwd=COQ, timeout=1530)
                axs = []
                grab = False
                for line in out.split('\n'):
                    if line.strip().startswith('* Axioms:'):
                        rest = line.split('Axioms:', 1)[1].strip()
                        if rest and rest != '<none>':
                            axs.append(rest)
                        grab = True; continue
                    if grab:
                        if line.strip().startswith('*') or not line.strip():
                            if line.strip().startswith('*'): grab = False
                            continue
                        axs.append(line.strip())
                if rc != 0:
                    broken.append((pf, 'coqchk failed:\n' + out[-2000:]))
                tb.append('coqchk -o DS.%s (%.0fs): %s; axioms of ALL loaded libraries: %s' % (
                    pf, dt, 'ok' if rc == 0 else 'FAILED', ', '.join(axs) if axs else 'none'))
                cmds.append('coqchk -o -silent -Q . DS DS.%s' % pf)
        self.cov['obligations'] = obligations
        self.cov['discharged'] = discharged
        self.cov['checker_cmd'] = '; '.join(cmds) if cmds else 'none'
        self.proof_tb = tb
        self.proof_broken = broken
        self.proof_errs = errs
        return not broken and not errs

    # -- correspondence for one family
    def prepare(self, fam, cases=None):
        """Build the family's model runner and harness and run both on the cases (no shared state touched: may run in a thread)."""
        name = fam['name']
        fb = os.path.join(self.bdir, name)
        os.makedirs(fb, exist_ok=True)
        prep = dict(fb=fb, err=None, model=None, exe=None, cases=cases, impl_tr={}, crashes={}, model_tr={}, merrs=[], t=(0, 0))
        try:
            if fam.get('extract'):
                model, err = build_model(fam, fb)
                if model is None:
                    prep['err'] = ('model build failed (extraction of the Coq model)', dict(error=err[-2000:])); return prep
            else:
                model = None   # implementation-only family: the oracle alone judges the implementation's outputs
            exe, err = build_harness(fam, fb, sanitize=fam.get('sanitize', True))
            if exe is None:
                prep['err'] = ('harness does not build against the current tree', dict(error=err[-3000:])); return prep
            if cases is None:
                rng = random.Random(self.seed * 1000003 + zlib_crc(name))
                cases = self.corpus_cases(fam) + fam['gen'](rng, self.tier)
            t0 = time.time()
            impl_tr, crashes = run_impl(exe, cases, fb, timeout=fam.get('impl_timeout', 300 if self.tier == 'quick' else 1800))
            t1 = time.time()
            if model is not None:
                model_tr, merrs = run_model(model, cases, impl_tr, fb)
            else:
                model_tr, merrs = dict(impl_tr), []
            t2 = time.time()
            prep.update(model=model, exe=exe, cases=cases, impl_tr=impl_tr, crashes=crashes, model_tr=model_tr, merrs=merrs,
                        t=(round(t1 - t0, 2), round(t2 - t1, 2)))
        except Exception as e:  # noqa
            import traceback
            prep['err'] = ('check machinery failed while preparing the family: %s' % e, dict(trace=traceback.format_exc()[-2000:]))
        return prep

    def correspond(self, fam, cases=None, replaying=False, prep=None):
        name = fam['name']
        if prep is None:
            prep = self.prepare(fam, cases)
        fb = prep['fb']
        famcov = dict(cases=0, ops=0, mismatches=0, crashes=0, oracle_failures=0, tags={})
        self.cov['families'][name] = famcov
        if prep['err']:
            self.report(fam, None, prep['err'][0], prep['err'][1], False)
            return
        model = prep['model']; exe = prep['exe']; cases = prep['cases']
        impl_tr = prep['impl_tr']; crashes = prep['crashes']; model_tr = prep['model_tr']; merrs = prep['merrs']
        famcov['impl_s'], famcov['model_s'] = prep['t']
        if merrs:
            self.report(fam, None, 'model runner failed', dict(errors=merrs), False)
        seen = set()
        v0 = len(self.violations)
        for c in cases:
            cid = c['id']
            famcov['cases'] += 1; famcov['ops'] += len(c['ops'])
            self.cov['evaluations'] += 1
            for t in c.get('tags', []):
                famcov['tags'][t] = famcov['tags'].get(t, 0) + 1
            h = hashlib.sha1(repr(c['ops']).encode()).hexdigest()
            if c.get('tags') and h not in seen:
                self.cov['distinct_nontrivial'] += 1
            seen.add(h)
            irecs = impl_tr.get(cid, []); mrecs = model_tr.get(cid, [])
            if len(self.violations) - v0 >= MAX_REPORTS:
                # enough replays written for this family: only count further failing cases
                bad = cid in crashes or compare_case(c, irecs, mrecs) is not None or \
                      (fam.get('oracle') and any(not is_known(self.prop, f['sig']) for f in fam['oracle'](c, irecs, mrecs)))
                if bad:
                    famcov['unreported_failing_cases'] = famcov.get('unreported_failing_cases', 0) + 1
                else:
                    self.cov['traces_validated_against_impl'] += 1
                continue
            if cid in crashes:
                famcov['crashes'] += 1
                small = self.shrink(fam, exe, model, c, fb, lambda st: st['crash']) if not replaying else c
                self.report(fam, small, 'implementation crashed or was stopped by a sanitizer', dict(case=cid), True,
                            sig=fam.get('crash_sig', lambda c, t: None)(c, crashes[cid]), extra=crashes[cid][-2500:])
                continue
            fails = fam['oracle'](c, irecs, mrecs) if fam.get('oracle') else []
            diff = compare_case(c, irecs, mrecs)
            if diff is None and not fails:
                self.cov['traces_validated_against_impl'] += 1
                if len(self.cov['samples']) < 3:
                    self.cov['samples'].append(dict(family=name, id=cid, ops=[[tok(x) for x in op] for op in c['ops'][:12]],
                                                    n_ops=len(c['ops']), impl_last=(irecs[-1] if irecs else None)))
                continue
            if fails:
                famcov['oracle_failures'] += 1
                # group by signature
                for sig in sorted(set(f['sig'] for f in fails)):
                    f0 = [f for f in fails if f['sig'] == sig][0]
                    if is_known(self.prop, sig):
                        self.report(fam, c, f0['what'], f0, True, sig=sig)
                        continue
                    small = c
                    if not replaying:
                        small = self.shrink(fam, exe, model, c, fb, lambda st, sig=sig: sig in st['sigs'])
                    self.report(fam, small, 'property violated by the implementation: ' + f0['what'], f0, True, sig=sig)
            only_known = bool(fails) and all(is_known(self.prop, f['sig']) for f in fails)
            if diff is not None and (not fails or only_known):
                # (a case whose only oracle failures are recorded known findings is still compared with the model: the
                #  model reproduces recorded findings, so a transcript difference there is a separate break)
                famcov['mismatches'] += 1
                small = c
                if not replaying:
                    small = self.shrink(fam, exe, model, c, fb, lambda st: st['diff'] is not None or st['sigs'])
                    # does the shrunk case violate the property itself?
                    st = self.run_single(fam, exe, model, small, fb)
                    if st['sigs']:
                        self.report(fam, small, 'property violated by the implementation: ' + st['fails'][0]['what'],
                                    st['fails'][0], True, sig=st['fails'][0]['sig'])
                        continue
                    diff = st['diff'] or diff
                self.report(fam, small,
                            'correspondence broken: implementation and model transcripts differ (no property predicate failed)',
                            dict(diff=diff, correspondence='%s vs %s' % (fam['harness'], fam['extract'])), False)
        return

    def run_single(self, fam, exe, model, case, fb):
        impl_tr, crashes = run_impl(exe, [case], fb, tag='shr_impl', timeout=120)
        st = dict(crash=case['id'] in crashes, diff=None, sigs=set(), fails=[])
        if st['crash']:
            return st
        if model is not None:
            model_tr, merrs = run_model(model, [case], impl_tr, fb, tag='shr_model', timeout=120, shards=1)
        else:
            model_tr = dict(impl_tr)
        irecs = impl_tr.get(case['id'], []); mrecs = model_tr.get(case['id'], [])
        st['diff'] = compare_case(case, irecs, mrecs)
        st['fails'] = fam['oracle'](case, irecs, mrecs) if fam.get('oracle') else []
        st['sigs'] = set(f['sig'] for f in st['fails'])
        return st

    def shrink(self, fam, exe, model, case, fb, pred, budget=120):
        """Delta-debugging over the op list (keeping the failure alive)."""
        ops = list(case['ops']); runs = 0; t_start = time.time()
        def test(cand):
            nonlocal runs
            runs += 1
            if time.time() - t_start > 240:      # shrinking is a convenience: bounded in time as well as in runs
                runs = budget
                return False
            st = self.run_single(fam, exe, model, dict(id=case['id'], ops=cand), fb)
            return bool(pred(st))
        try:
            if not test(ops):
                return case
            # truncate tail first
            chunk = max(1, len(ops) // 2)
            while chunk >= 1 and runs < budget:
                i = len(ops) - chunk
                progressed = False
                while i >= 0 and runs < budget:
                    cand = ops[:i] + ops[i + chunk:]
                    if cand and test(cand):
                        ops = cand; progressed = True
                        i = min(i, len(ops)) - chunk
                    else:
                        i -= chunk
                if not progressed or chunk == 1:
                    if chunk == 1:
                        break
                chunk //= 2
        except Exception as e:  # noqa
            self.notes.append('shrink failed: %s' % e)
        return dict(id=case['id'], ops=ops, tags=case.get('tags', []))

    def corpus_cases(self, fam):
        d = os.path.join(VERIF, 'corpus', self.prop)
        out = []
        if os.path.isdir(d):
            for fn in sorted(os.listdir(d)):
                if fn.startswith(fam['name'] + '_') and fn.endswith('.script'):
                    out += read_script(os.path.join(d, fn), prefix='corpus_' + fn[:-7] + '_')
        return out

    # -- finish
    def finish(self, level='proof'):
        spec = self.spec
        wall = time.time() - self.t0
        cov = self.cov
        cov['rule'] = getattr(spec, 'RULE', '')
        cov['trusted_base'] = getattr(self, 'proof_tb', []) + list(getattr(spec, 'TRUSTED', [])) + COMMON_TRUSTED
        cov['known_findings_reported'] = [k[0] for k in self.known]
        cov['notes'] = self.notes
        if not cov['samples']:
            cov['samples'] = [dict(note='no passing case recorded')]
        ev = dict(property_id=self.prop, tier=self.tier, seed=self.seed, level=level, coverage=cov,
                  assumptions=list(getattr(spec, 'ASSUMPTIONS', [])), wall_s=round(wall, 2),
                  violations=len(self.violations))
        # evidence/ is only written by runs against /repo itself; scratch runs (VERIF_REPO=worktree) write under _build/
        evdir = os.path.join(VERIF, 'evidence') if os.path.realpath(REPO) == '/repo' and not self.tag else os.path.join(BUILD, 'evidence_scratch' + self.tag)
        os.makedirs(evdir, exist_ok=True)
        with open(os.path.join(evdir, self.prop + '.json'), 'w') as f:
            json.dump(ev, f, indent=1, default=str)
        for sig, what in self.known:
            log('KNOWN-FINDING: property=%s %s [%s]' % (self.prop, what, sig))
        for path, suffix in self.violations:
            log('VIOLATION property=%s replay=%s%s' % (self.prop, path, suffix))
        log('%s %s: obligations %d/%d, cases %d (nontrivial distinct %d), validated %d, violations %d, known %d, %.1fs' % (
            self.prop, self.tier, cov['discharged'], cov['obligations'], cov['evaluations'], cov['distinct_nontrivial'],
            cov['traces_validated_against_impl'], len(self.violations), len(self.known), wall))
        return 1 if self.violations else 0

    def run(self, replay=None):
        spec = self.spec
        if replay:
            return self.run_replay(replay)
        # the proof step and the families' build+run steps are independent: run them concurrently (subprocess-bound),
        # then analyse the families one after the other
        from concurrent.futures import ThreadPoolExecutor
        with ThreadPoolExecutor(max_workers=int(os.environ.get('VERIF_PAR', '6'))) as ex:
            fut_proofs = ex.submit(self.proofs)
            futs = [(fam, ex.submit(self.prepare, fam)) for fam in spec.FAMILIES]
            proofs_ok = fut_proofs.result()
            preps = [(fam, f.result()) for fam, f in futs]
        for fam, prep in preps:
            self.correspond(fam, prep=prep)
        if not proofs_ok:
            # a proof obligation broke: the correspondence/oracle runs above were the search for a failing input
            found = any(s == '' for _, s in self.violations)
            detail = dict(errors=self.proof_errs, broken=[b[0] for b in self.proof_broken])
            extra = '\n'.join(b[1] for b in self.proof_broken)
            if not found:
                path = self.write_replay(None, None, 'proof obligation no longer checks: ' +
                                         ', '.join([b[0] for b in self.proof_broken] + self.proof_errs)[:300], detail, extra)
                self.violations.append((path, ' no-failing-input-found'))
        if hasattr(spec, 'extra'):
            spec.extra(self)
        return self.finish()

    def run_replay(self, path):
        cases = read_script(path)
        famname = None
        for line in open(path):
            if line.startswith('# family '):
                famname = line.split()[2]
        self.proofs()
        for fam in self.spec.FAMILIES:
            if famname in (None, '-', fam['name']):
                self.correspond(fam, cases=cases, replaying=True)
        return self.finish()

def compact_detail(d):
    """lists of integers are rendered on one line as hex tokens"""
    if isinstance(d, dict):
        return {k: compact_detail(x) for k, x in d.items()}
    if isinstance(d, (list, tuple)):
        if d and all(isinstance(x, int) for x in d):
            return ' '.join(tok(x) for x in d[:80]) + (' ...' if len(d) > 80 else '')
        return [compact_detail(x) for x in d]
    return d

def read_script(path, prefix=''):
    cases = []
    for line in open(path):
        line = line.rstrip('\n')
        if line.startswith('C '):
            cases.append(dict(id=prefix + line[2:].strip(), ops=[], tags=['corpus']))
        elif line.startswith('O ') and cases:
            toks = line[2:].split('|')[0].split()
            cases[-1]['ops'].append([untok(t) for t in toks])
    return cases

def zlib_crc(s):
    import zlib
    return zlib.crc32(s.encode())

STDLIB_AXIOMS = re.compile(r'^(Coq\.|Stdlib\.)?(Logic\.)?(Classical_Prop\.classic|classic|FunctionalExtensionality\.'
                           r'functional_extensionality_dep|functional_extensionality_dep|ProofIrrelevance\.proof_irrelevance|'
                           r'proof_irrelevance|JMeq\.JMeq_eq|JMeq_eq|Eqdep\.Eq_rect_eq\.eq_rect_eq|eq_rect_eq|'
                           r'ClassicalDedekindReals\..*|FloatAxioms\..*|PrimFloat\..*|Uint63\..*|PrimInt63\..*|'
                           r'Float.*|Int63.*|float|int|float_class|.*_spec|.*_equiv|.*opp_spec|sqrt|abs|opp|add|sub|mul|div|eqb|ltb|leb|compare|of_uint63|normfr_mantissa|frshiftexp|ldshiftexp|next_up|next_down|classify)$')

def allowed_axiom(a):
    return bool(STDLIB_AXIOMS.match(a))

COMMON_TRUSTED = [
    'Coq 8.16.1 kernel and vm_compute (no native_compute; no guard/positivity/universe flags switched off)',
    'no Axiom/Parameter/Admitted in the development (scanned on every run)',
    'extraction: ExtrOcamlBasic only (unless the family lists more), OCaml 4.13.1, extract/driver_common.ml',
    'correspondence harness: g++ 12 -O1 ASan/UBSan, private members opened with a macro in the harness TU, '
    'hex token protocol, python orchestration (lib/vlib.py)',
    'the C++ semantics of the headers is modelled by hand-written Gallina, tied to /repo by the correspondence runs '
    'of this check (differential execution on generated operation scripts), not by a verified translation',
]
