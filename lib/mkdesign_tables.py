#!/usr/bin/env python3
# Rewrites the generated blocks of DESIGN.md (between <!-- BEGIN x --> and <!-- END x -->) from known_findings.json,
# seeded/*/meta.json + result.json and MANIFEST.json, so that the tables in sections 11 and 13 are measured, not typed.
import json, os, re, glob, subprocess
HERE = os.path.dirname(os.path.dirname(os.path.abspath(__file__)))
def block(name, text, s):
    b = '<!-- BEGIN %s -->' % name; e = '<!-- END %s -->' % name
    if b not in s: return s
    return s[:s.index(b) + len(b)] + '\n' + text.rstrip() + '\n' + s[s.index(e):]
kf = json.load(open(os.path.join(HERE, 'known_findings.json')))
def short(t, n=230):
    t = re.sub(r'\s+', ' ', t).strip()
    return t if len(t) <= n else t[:n - 1] + '…'
rows = ['| commit | property | what failed before the repair |', '|---|---|---|']
for f in kf['fixed']:
    txt = re.sub(r'^fixed: property=C\d\d [0-9a-f]+ ', '', f['entry'])
    subj = subprocess.run('git -C /repo log -1 --format=%%s %s' % f['commit'], shell=True, stdout=subprocess.PIPE).stdout.decode().strip()
    rows.append('| `%s` %s | %s | %s |' % (f['commit'], subj.replace('|', '/'), f['property'], short(txt).replace('|', '/')))
fixed_tbl = '\n'.join(rows)
by = {}
for f in kf['findings']: by.setdefault(f['property'], []).append(f)
rows = ['| property | signature | what fails (abridged; the full text with the replay is in known_findings.json) |', '|---|---|---|']
for p in sorted(by):
    fs = by[p]
    if len(fs) > 14:
        # group by signature prefix
        groups = {}
        for f in fs: groups.setdefault(':'.join(f['signature'].split(':')[:2]), []).append(f)
        for g in sorted(groups):
            ex = groups[g][0]
            rows.append('| %s | `%s…` (%d entries) | e.g. %s |' % (p, g, len(groups[g]), short(ex['what'], 180).replace('|', '/')))
    else:
        for f in fs:
            rows.append('| %s | `%s` | %s |' % (p, f['signature'], short(f['what'], 200).replace('|', '/')))
find_tbl = '\n'.join(rows)
rows = ['| seed | property | change (written by an independent sub-agent from the property text alone) | needs | result of `./check` (quick) |', '|---|---|---|---|---|']
ncaught = 0; ntot = 0
for d in sorted(glob.glob(os.path.join(HERE, 'seeded', '*'))):
    try:
        m = json.load(open(os.path.join(d, 'meta.json')))
    except Exception:
        continue
    r = {}
    if os.path.exists(os.path.join(d, 'result.json')):
        r = json.load(open(os.path.join(d, 'result.json')))
    res = []
    for p, v in r.get('results', {}).items():
        res.append('%s: %s' % (p, 'caught' if v['caught'] else 'MISSED'))
        ntot += 1; ncaught += 1 if v['caught'] else 0
    note = m.get('maintainer_note', '')
    rows.append('| %s | %s | %s | %s | %s%s |' % (os.path.basename(d), m.get('property'), short(m.get('summary', ''), 170).replace('|', '/'),
                                                  short(m.get('needs', ''), 150).replace('|', '/'), ', '.join(res) or 'not run yet', (' — ' + note) if note else ''))
seed_tbl = '\n'.join(rows) + '\n\nTotal: %d of %d (seed, check) runs caught.' % (ncaught, ntot)
# as-built table from the check modules
import sys, importlib
sys.path.insert(0, os.path.join(HERE, 'lib')); sys.path.insert(0, os.path.join(HERE, 'checks'))
man = json.load(open(os.path.join(HERE, 'MANIFEST.json')))
claimed = set(c['property_id'] for c in man['checks'])
rows = ['| id | claimed | property files (theorems) | correspondence families (harness / extracted model) | translators |', '|---|---|---|---|---|']
for i in range(1, 21):
    pid = 'C%02d' % i
    try:
        m = importlib.import_module(pid)
    except Exception as e:
        rows.append('| %s | no | (no check module) | | |' % pid); continue
    props = []
    for pf in getattr(m, 'COQ_PROPS', []):
        try:
            src = open(os.path.join(HERE, 'coq', pf + '.v')).read()
            n = len(re.findall(r'^\s*(?:Theorem|Corollary)\s', src, re.M))
        except OSError:
            n = 0
        extra = getattr(m, 'EXTRA_OBLIGATIONS', {}).get(pf, 0)
        props.append('%s (%d%s)' % (pf, n, ' + %d generated' % extra if extra else ''))
    fams = ['%s: %s / %s' % (f['name'], f.get('harness'), f.get('extract') or 'no model (oracle only)') for f in getattr(m, 'FAMILIES', [])]
    rows.append('| %s | %s | %s | %s | %s |' % (pid, 'yes' if pid in claimed else 'no (see MANIFEST not_applicable)', '; '.join(props) or '-', '; '.join(fams) or '-',
                                          ', '.join(getattr(m, 'TRANSLATORS', [])) or '-'))
asbuilt_tbl = '\n'.join(rows)
p = os.path.join(HERE, 'DESIGN.md'); s = open(p).read()
s = block('ASBUILT', asbuilt_tbl, s)
s = block('FIXED', fixed_tbl, s); s = block('FINDINGS', find_tbl, s); s = block('SEEDS', seed_tbl, s)
open(p, 'w').write(s)
print('fixed', len(kf['fixed']), 'findings', len(kf['findings']), 'seeds caught %d/%d' % (ncaught, ntot))
