#!/bin/bash
# usage: coqdbg.sh File.v LINE  -- replaces line LINE with "Show. admit." compile in /tmp scratch to see the goal
f=$1; n=$2
sed "${n}s/.*/  Show. admit./" $f > /tmp/Dbg_$$.v
(cd $(dirname $f); timeout 120 coqc -Q . DS /tmp/Dbg_$$.v 2>&1 | head -${3:-60})
rm -f /tmp/Dbg_$$.*  /tmp/.Dbg_$$.aux
