#!/usr/bin/env python3
# seedbatch.py <round> <offset> [Cxx ...] — for every /tmp/seed_<Cxx>_<round>_out/<i>: confirm it (lib/seedverify.py, test targets derived
# from the directories the patch touches), install it as seeded/<Cxx>-<i+offset>, run the property's quick check against it (lib/seedrun.py).
import json, os, re, subprocess, sys
from concurrent.futures import ThreadPoolExecutor
HERE = os.path.dirname(os.path.dirname(os.path.abspath(__file__)))
TARGETS = {'theta': ['theta_test', 'tuple_test'], 'tuple': ['tuple_test', 'theta_test'], 'hll': ['hll_test'], 'cpc': ['cpc_test'],
           'kll': ['kll_test'], 'req': ['req_test'], 'quantiles': ['quantiles_test'], 'fi': ['fi_test'], 'count': ['count_min_test'],
           'filters': ['bloom_filter_test'], 'density': ['density_test'], 'tdigest': ['tdigest_test'],
           'sampling': ['var_opt_sampling_test', 'ebpps_sampling_test'], 'common': ['common_test']}
DEFAULT = {'C01': 'theta', 'C02': 'theta', 'C03': 'hll', 'C04': 'hll', 'C05': 'cpc', 'C12': 'fi', 'C13': 'tuple', 'C14': 'count', 'C15': 'filters',
           'C16': 'sampling', 'C17': 'tdigest', 'C18': 'sampling', 'C20': 'density'}

def one(pid, rnd, i, off):
    src = '/tmp/seed_%s_%s_out/%d' % (pid, rnd, i)
    if not os.path.exists(os.path.join(src, 'patch.diff')):
        return '%s-%d: no patch' % (pid, i + off)
    dirs = set(re.findall(r'^\+\+\+ b/([a-z_]+)/', open(os.path.join(src, 'patch.diff')).read(), re.M))
    tg = []
    for d in sorted(dirs):
        for t in TARGETS.get(d, []):
            if t not in tg: tg.append(t)
    if 'common' in dirs and pid in DEFAULT:
        for t in TARGETS[DEFAULT[pid]]:
            if t not in tg: tg.append(t)
    if not tg:
        tg = TARGETS[DEFAULT.get(pid, 'theta')]
    sid = '%s-%d' % (pid, i + off)
    # normalise the property id in meta.json
    try:
        mp = os.path.join(src, 'meta.json'); m = json.load(open(mp))
        if not re.fullmatch(r'C\d\d', str(m.get('property'))):
            m['property_text'] = m.get('property'); m['property'] = pid; json.dump(m, open(mp, 'w'), indent=1)
    except Exception as e:
        return '%s: bad meta.json %s' % (sid, e)
    r = subprocess.run(['python3', os.path.join(HERE, 'lib', 'seedverify.py'), src, sid] + tg, stdout=subprocess.PIPE, stderr=subprocess.STDOUT)
    out = r.stdout.decode().strip().split('\n')
    if not out[-1].startswith('CONFIRMED'):
        return '%s: NOT CONFIRMED: %s' % (sid, ' | '.join(out[-3:])[:400])
    r = subprocess.run(['python3', os.path.join(HERE, 'lib', 'seedrun.py'), os.path.join(HERE, 'seeded', sid)], stdout=subprocess.PIPE, stderr=subprocess.STDOUT)
    return r.stdout.decode().strip().split('\n')[-1]

def main():
    rnd = sys.argv[1]; off = int(sys.argv[2]); pids = sys.argv[3:] or ['C%02d' % i for i in range(1, 21)]
    jobs = [(p, rnd, i, off) for p in pids for i in (1, 2, 3)]
    with ThreadPoolExecutor(max_workers=6) as ex:
        for res in ex.map(lambda a: one(*a), jobs):
            print(res, flush=True)

if __name__ == '__main__':
    main()
