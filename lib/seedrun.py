#!/usr/bin/env python3
# seedrun.py <seeded-dir> [prop ...]   — run the registered quick checks against a seeded change.
# Applies seeded/<id>/patch.diff to a scratch worktree of /repo (never to /repo itself: other checks may be running
# against it), runs `./check <prop>` with VERIF_REPO pointing at the worktree, records which checks raise VIOLATION
# in seeded/<id>/result.json, removes the worktree.
import json, os, subprocess, sys, time
HERE = os.path.dirname(os.path.dirname(os.path.abspath(__file__)))

def sh(cmd, **kw):
    return subprocess.run(cmd, shell=True, stdout=subprocess.PIPE, stderr=subprocess.STDOUT, **kw)

def main():
    d = os.path.abspath(sys.argv[1])
    meta = json.load(open(os.path.join(d, 'meta.json')))
    props = sys.argv[2:] or meta.get('checks_to_run') or [meta['property']]
    name = os.path.basename(d)
    wt = '/tmp/seedwt_' + name
    sh('git -C /repo worktree remove --force %s' % wt)
    r = sh('git -C /repo worktree add --detach %s' % wt)
    if r.returncode != 0:
        print(r.stdout.decode()); sys.exit(2)
    try:
        r = sh('git -C %s apply --3way %s || git -C %s apply %s' % (wt, os.path.join(d, 'patch.diff'), wt, os.path.join(d, 'patch.diff')))
        st = sh('git -C %s status --short' % wt).stdout.decode()
        if not st.strip():
            print('patch did not apply:\n' + r.stdout.decode()); sys.exit(2)
        res = {}
        for p in props:
            env = dict(os.environ); env['VERIF_REPO'] = wt; env['VERIF_BUILD_TAG'] = '_seed_' + name
            t0 = time.time()
            r = sh('timeout 3000 ./check %s --tier quick' % p, cwd=HERE, env=env)
            out = r.stdout.decode('utf-8', 'replace')
            vio = [l for l in out.split('\n') if l.startswith('VIOLATION')]
            res[p] = dict(exit=r.returncode, violations=vio[:5], caught=bool(vio) and r.returncode == 1,
                          wall_s=round(time.time() - t0, 1), tail=out.split('\n')[-3:])
            # keep the first replay next to the seed for the record
            if vio:
                rp = vio[0].split('replay=')[1].split()[0]
                try:
                    txt = open(rp).read()
                    open(os.path.join(d, 'replay_%s.txt' % p), 'w').write(txt[:20000])
                except OSError:
                    pass
            print(name, p, 'CAUGHT' if res[p]['caught'] else 'MISSED', res[p]['wall_s'], 's', flush=True)
        json.dump(dict(ran_at=time.strftime('%Y-%m-%d %H:%M'), repo_head=sh('git -C /repo rev-parse --short HEAD').stdout.decode().strip(),
                       verif_head=sh('git rev-parse --short HEAD', cwd=HERE).stdout.decode().strip(), results=res),
                  open(os.path.join(d, 'result.json'), 'w'), indent=1)
    finally:
        sh('git -C /repo worktree remove --force %s' % wt)
        sh('rm -rf %s/_build/*_seed_%s %s/_build/evidence_scratch_seed_%s' % (HERE, name, HERE, name))

if __name__ == '__main__':
    main()
