#!/usr/bin/env python3
# usage: kf_add.py <property> <signature> "<what fails (specific input/call site/history)>" [replay-path]
# Adds a *finding* entry to known_findings.json under a lock (use only for defects confirmed on the real code).
import sys, json, os, fcntl
HERE = os.path.dirname(os.path.dirname(os.path.abspath(__file__)))
p = os.path.join(HERE, 'known_findings.json')
with open(p + '.lock', 'w') as lk:
    fcntl.flock(lk, fcntl.LOCK_EX)
    d = json.load(open(p))
    e = dict(property=sys.argv[1], signature=sys.argv[2], what=sys.argv[3])
    if len(sys.argv) > 4: e['replay'] = sys.argv[4]
    d['findings'] = [f for f in d['findings'] if not (f['property'] == e['property'] and f['signature'] == e['signature'])] + [e]
    json.dump(d, open(p, 'w'), indent=1)
print('added', e)
