#!/usr/bin/env python3
# seedverify.py <seed-out-dir> <seed-id> <test targets...>
# Independent confirmation of a seeded change delivered by a sub-agent, in a scratch worktree of /repo:
#   1. patch.diff applies to a clean checkout of /repo's HEAD;   2. the named unit-test targets build and pass WITH the patch (guard off);
#   3. demo.cpp exits 0 WITHOUT the patch and non-zero WITH it.
# On success copies patch.diff, demo.cpp, BUILD.txt and an extended meta.json to /verif/seeded/<seed-id>/.
import json, os, re, shutil, subprocess, sys, time
HERE = os.path.dirname(os.path.dirname(os.path.abspath(__file__)))

def sh(cmd, **kw):
    p = subprocess.run(cmd, shell=True, stdout=subprocess.PIPE, stderr=subprocess.STDOUT, **kw)
    return p.returncode, p.stdout.decode('utf-8', 'replace')

def main():
    src = os.path.abspath(sys.argv[1]); sid = sys.argv[2]; targets = sys.argv[3:]
    wt = '/tmp/seedv_' + sid
    sh('git -C /repo worktree remove --force %s' % wt)
    rc, out = sh('git -C /repo worktree add --detach %s' % wt)
    if rc: print(out); sys.exit(2)
    ok = False; ran = {}
    try:
        inc = ' '.join('-I%s/%s/include' % (wt, d) for d in ['common', 'count', 'cpc', 'density', 'fi', 'filters', 'hll', 'kll', 'quantiles',
                                                            'req', 'sampling', 'tdigest', 'theta', 'tuple'])
        demo = os.path.join(src, 'demo.cpp')
        def run_demo(tag):
            exe = os.path.join(wt, 'demo_' + tag)
            rc, out = sh('g++ -std=c++11 -O1 %s %s -o %s' % (inc, demo, exe))
            if rc: return None, out[-1500:]
            rc, out = sh('timeout 600 ' + exe)
            return rc, out[-1500:]
        rc0, out0 = run_demo('clean')
        rc, out = sh('git -C %s apply %s' % (wt, os.path.join(src, 'patch.diff')))
        if rc:
            print('PATCH DOES NOT APPLY\n' + out); return
        rc1, out1 = run_demo('patched')
        ran['demo_unchanged_exit'] = rc0; ran['demo_changed_exit'] = rc1; ran['demo_changed_output'] = out1[-600:]
        if rc0 != 0 or rc1 in (0, None):
            print('DEMO NOT CONFIRMED: unchanged exit %s, changed exit %s\n%s\n%s' % (rc0, rc1, out0, out1)); return
        t0 = time.time()
        rc, out = sh('cmake -S %s -B %s/_b -G Ninja -DCMAKE_BUILD_TYPE=Release -DFETCHCONTENT_TRY_FIND_PACKAGE_MODE=ALWAYS' % (wt, wt))
        if rc: print('cmake configure failed\n' + out[-2000:]); return
        rc, out = sh('cmake --build %s/_b --target %s' % (wt, ' '.join(targets)))
        if rc: print('TESTS DO NOT BUILD with the patch\n' + out[-3000:]); return
        rx = '^(' + '|'.join(targets) + ')$'
        rc, out = sh('cd %s/_b && ctest -R "%s" --timeout 1800 -j8' % (wt, rx))
        m = re.search(r'(\d+)% tests passed, (\d+) tests failed out of (\d+)', out)
        ran['ctest'] = m.group(0) if m else out[-300:]
        ran['ctest_cmd'] = 'ctest -R "%s" (targets %s built WITH the patch, guard off), %.0fs' % (rx, ' '.join(targets), time.time() - t0)
        if rc or not m or int(m.group(2)) != 0 or int(m.group(3)) == 0:
            print('EXISTING TESTS FAIL (or none ran) with the patch:\n' + out[-2500:]); return
        ok = True
    finally:
        sh('git -C /repo worktree remove --force %s' % wt)
    dst = os.path.join(HERE, 'seeded', sid)
    os.makedirs(dst, exist_ok=True)
    for f in ('patch.diff', 'demo.cpp', 'BUILD.txt'):
        if os.path.exists(os.path.join(src, f)):
            shutil.copy(os.path.join(src, f), os.path.join(dst, f))
    meta = json.load(open(os.path.join(src, 'meta.json')))
    meta['confirmed_by_maintainer'] = dict(ran, when=time.strftime('%Y-%m-%d %H:%M'),
                                           repo_head=sh('git -C /repo rev-parse --short HEAD')[1].strip(),
                                           how='lib/seedverify.py: scratch worktree, patch applied to clean HEAD, tests built+run with the patch, demo built against both trees')
    meta['seed_id'] = sid
    json.dump(meta, open(os.path.join(dst, 'meta.json'), 'w'), indent=1)
    print('CONFIRMED', sid, ran.get('ctest'))

if __name__ == '__main__':
    main()
