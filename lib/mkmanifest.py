#!/usr/bin/env python3
# Regenerates MANIFEST.json from checks/*.py (each may define MANIFEST = dict(level_text, level_note, technique, design_ref)).
import json, os, sys, importlib
HERE = os.path.dirname(os.path.dirname(os.path.abspath(__file__)))
sys.path.insert(0, os.path.join(HERE, 'lib')); sys.path.insert(0, os.path.join(HERE, 'checks'))
ALL = ['C%02d' % i for i in range(1, 21)]
NOT_YET = 'check not built yet in this round; the plan is in DESIGN.md section 5 (to be claimed when its model, theorems and correspondence harness exist)'
checks = []; na = []
HOLD = json.load(open(os.path.join(HERE, 'checks', 'HOLD.json'))) if os.path.exists(os.path.join(HERE, 'checks', 'HOLD.json')) else {}
for pid in ALL:
    m = importlib.import_module(pid) if os.path.exists(os.path.join(HERE, 'checks', pid + '.py')) else None
    if pid in HOLD:
        na.append(dict(property_id=pid, reason=HOLD[pid]))
    elif m is not None and getattr(m, 'READY', False):
        mf = getattr(m, 'MANIFEST', {})
        checks.append(dict(
            property_id=pid,
            quick_cmd='./check %s --tier quick' % pid,
            thorough_cmd='./check %s --tier thorough' % pid,
            evidence_file='evidence/%s.json' % pid,
            replay_cmd_template='./check %s --replay {path}' % pid,
            engine='coq-proof+correspondence',
            level_claimed=dict(category='proof', text=mf.get('level_text', ''), design_ref=mf.get('design_ref', 'DESIGN.md section 5 ' + pid)),
            level_note=mf.get('level_note', ''),
            technique=mf.get('technique', 'machine-checked proof in Coq 8.16 about an executable Gallina model, tied to /repo by a differential correspondence check (extracted OCaml model vs C++ harness)')))
    else:
        na.append(dict(property_id=pid, reason=NOT_YET))
man = dict(
    version=1,
    setup_cmd='./setup.sh',
    hooks=dict(guard='DATASKETCHES_VERIF',
               enable='every harness translation unit (harness/drv_*.cpp) is compiled by the check itself with -DDATASKETCHES_VERIF against /repo/*/include',
               baseline_off_cmd='cmake --build /repo/_build && ctest --test-dir /repo/_build -j8 --timeout 900',
               source_commits=json.load(open(os.path.join(HERE, 'hooks.json')))['source_commits'] if os.path.exists(os.path.join(HERE, 'hooks.json')) else [],
               add_only=True),
    engines=[dict(name='coq-proof+correspondence', path='check',
                  serves_properties=[c['property_id'] for c in checks],
                  kind_free_text='Coq 8.16 theorems about executable Gallina models (coq/*.v); models extracted to OCaml and run against '
                                 'a C++ harness compiled from /repo on the same generated operation scripts; property oracle on the implementation outputs')],
    checks=checks,
    notes='See DESIGN.md. known_findings.json lists genuine defects (recorded or fixed). Replays are written under _build/replays/.',
    not_applicable=na)
json.dump(man, open(os.path.join(HERE, 'MANIFEST.json'), 'w'), indent=1)
print('checks:', [c['property_id'] for c in checks])
