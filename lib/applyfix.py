#!/usr/bin/env python3
# applyfix.py <fixes/NN_name> [--sig s1,s2]   — maintainer tool: apply a prepared repair to /repo as ONE unguarded "fix:" commit,
# record it under "fixed" in known_findings.json and drop the now-repaired finding(s) from "findings".
import json, os, re, subprocess, sys
HERE = os.path.dirname(os.path.dirname(os.path.abspath(__file__)))
def sh(cmd):
    p = subprocess.run(cmd, shell=True, stdout=subprocess.PIPE, stderr=subprocess.STDOUT)
    return p.returncode, p.stdout.decode()
base = sys.argv[1]
if base.endswith('.patch'): base = base[:-6]
if not os.path.isabs(base): base = os.path.join(HERE, base) if os.path.exists(os.path.join(HERE, base + '.patch')) else os.path.join(HERE, 'fixes', base)
sigs = []
if '--sig' in sys.argv: sigs = sys.argv[sys.argv.index('--sig') + 1].split(',')
msg = open(base + '.msg').read().strip().split('\n')
first = msg[0].strip()
assert first.startswith('fix:'), first
fixed_lines = [l for l in msg[1:] if l.startswith('fixed:')]
assert fixed_lines, 'no fixed: line in .msg'
rc, out = sh('git -C /repo status --short')
assert out.strip() == '', '/repo not clean:\n' + out
rc, out = sh('git -C /repo apply --check %s.patch' % base)
if rc: print('patch does not apply:\n' + out); sys.exit(1)
sh('git -C /repo apply %s.patch' % base)
rc, out = sh('git -C /repo diff --stat')
print(out)
body = '\n'.join(l for l in msg[1:] if not l.startswith('fixed:')).strip()
import tempfile
with tempfile.NamedTemporaryFile('w', delete=False) as f:
    f.write(first + '\n\n' + (body + '\n' if body else '') + '\n'.join(re.sub(r'^fixed: ', 'Repairs: ', l) for l in fixed_lines) + '\n')
rc, out = sh('git -C /repo commit -qa -F %s' % f.name)
os.unlink(f.name)
if rc: print(out); sys.exit(1)
rc, h = sh('git -C /repo rev-parse --short HEAD'); h = h.strip()
kf = json.load(open(os.path.join(HERE, 'known_findings.json')))
for l in fixed_lines:
    m = re.match(r'fixed:\s*property=(C\d\d)\s*(.*)', l)
    prop, text = m.group(1), m.group(2)
    for s in [x for x in re.findall(r'\[([a-z0-9_+]+)\]', text) if '_' in x and len(x) > 8] + re.findall(r'\(C\d\d, ([a-z0-9_+]+)\)', text):
        if s not in sigs: sigs.append(s)
    kf['fixed'].append(dict(property=prop, commit=h, entry='fixed: property=%s %s %s' % (prop, h, text)))
before = len(kf['findings'])
kf['findings'] = [f for f in kf['findings'] if f.get('signature') not in sigs]
json.dump(kf, open(os.path.join(HERE, 'known_findings.json'), 'w'), indent=1)
print('committed', h, first); print('findings removed:', before - len(kf['findings']), sigs)
