# gen_bitpacking.py — translates the straight-line routines pack_bits_<b> / unpack_bits_<b> of
# theta/include/bit_packing.hpp into deep-embedded programs (coq/gen/BitPackingGen.v) over the
# little language of coq/BitPackLang.v. Pointer post-increments are resolved to static byte offsets.
# Anything outside the accepted grammar raises: a translator failure is a broken proof obligation.
import re, os

class TranslateError(Exception):
    pass

TOKEN = re.compile(r'\s*(static_cast|values|ptr|0x[0-9a-fA-F]+|\d+|\+\+|<<|>>|\|=|[*()\[\]<>&|=;,]|uint8_t|uint64_t|uint32_t|uint16_t|int)')

def tokenize(s):
    pos = 0; out = []
    s = s.strip()
    while pos < len(s):
        m = TOKEN.match(s, pos)
        if not m:
            raise TranslateError('cannot tokenize: %r' % s[pos:pos + 40])
        out.append(m.group(1)); pos = m.end()
    return out

class Parser:
    """expr  := and ('|' and)*          (| does not occur today; accepted for robustness)
       and   := shift ('&' shift)*
       shift := unary (('<<'|'>>') INT)*
       unary := '*' 'ptr' ['++'] | 'values' '[' INT ']' | INT | '(' expr ')' | 'static_cast' '<' T '>' '(' expr ')'"""
    def __init__(self, toks, st):
        self.t = toks; self.i = 0; self.st = st   # st: dict(off=current byte offset, inc=bool)
    def peek(self):
        return self.t[self.i] if self.i < len(self.t) else None
    def eat(self, x=None):
        tk = self.peek()
        if tk is None or (x is not None and tk != x):
            raise TranslateError('expected %r, got %r in %r' % (x, tk, ' '.join(self.t)))
        self.i += 1
        return tk
    def num(self):
        tk = self.eat()
        try:
            return int(tk, 0)
        except ValueError:
            raise TranslateError('expected integer literal, got %r' % tk)
    def ptr_deref(self):
        self.eat('*'); self.eat('ptr')
        off = self.st['off']
        if self.peek() == '++':
            self.eat('++')
            if self.st['inc']:
                raise TranslateError('two pointer increments in one statement')
            self.st['inc'] = True
        self.st['uses'] = self.st.get('uses', 0) + 1
        if self.st['uses'] > 1:
            raise TranslateError('pointer dereferenced twice in one statement')
        return off
    def unary(self):
        tk = self.peek()
        if tk == '*':
            return ('Byte', self.ptr_deref())
        if tk == 'values':
            self.eat(); self.eat('['); i = self.num(); self.eat(']')
            return ('Val', i)
        if tk == '(':
            self.eat(); e = self.expr(); self.eat(')'); return e
        if tk == 'static_cast':
            self.eat(); self.eat('<'); ty = self.eat(); self.eat('>'); self.eat('('); e = self.expr(); self.eat(')')
            tmap = {'uint8_t': 'U8', 'uint64_t': 'U64'}
            if ty not in tmap:
                raise TranslateError('unsupported cast target %s' % ty)
            return ('Cast', tmap[ty], e)
        return ('Lit', self.num())
    def shift(self):
        e = self.unary()
        while self.peek() in ('<<', '>>'):
            op = self.eat(); n = self.num()
            e = ('Shl' if op == '<<' else 'Shr', e, n)
        return e
    def andx(self):
        e = self.shift()
        while self.peek() == '&':
            self.eat(); r = self.shift()
            if r[0] != 'Lit':
                raise TranslateError('mask must be a literal')
            e = ('And', e, r[1])
        return e
    def expr(self):
        e = self.andx()
        if self.peek() == '|':
            raise TranslateError("binary '|' is not in the accepted grammar")
        return e

def coq_exp(e):
    k = e[0]
    if k == 'Byte': return '(Byte %d)' % e[1]
    if k == 'Val': return '(Val %d)' % e[1]
    if k == 'Lit': return '(Lit %d)' % e[1]
    if k == 'Cast': return '(Cast %s %s)' % (e[1], coq_exp(e[2]))
    if k in ('Shl', 'Shr'): return '(%s %s %d)' % (k, coq_exp(e[1]), e[2])
    if k == 'And': return '(And %s %d)' % (coq_exp(e[1]), e[2])
    raise TranslateError('bad node %r' % (e,))

def translate_stmt(text, st):
    toks = tokenize(text)
    st['inc'] = False; st['uses'] = 0
    p = Parser(toks, st)
    # left-hand side
    if p.peek() == '*':
        j = p.ptr_deref(); lhs = ('byte', j)
    elif p.peek() == 'values':
        p.eat(); p.eat('['); i = p.num(); p.eat(']'); lhs = ('val', i)
    else:
        raise TranslateError('unsupported statement: %r' % text)
    op = p.eat()
    if op not in ('=', '|='):
        raise TranslateError('unsupported assignment operator %r' % op)
    st['uses'] = 0 if lhs[0] == 'val' else st['uses']
    if lhs[0] == 'byte':
        # a byte statement may not read the pointer on its right-hand side
        st['uses'] = 1
    e = p.expr()
    if p.peek() is not None:
        raise TranslateError('trailing tokens in %r' % text)
    if st['inc']:
        st['off'] += 1
    name = {('byte', '='): 'SetByte', ('byte', '|='): 'OrByte', ('val', '='): 'SetVal', ('val', '|='): 'OrVal'}[(lhs[0], op)]
    return '%s %d %s' % (name, lhs[1], coq_exp(e))

FUNC = re.compile(r'static inline void (pack|unpack)_bits_(\d+)\(([^)]*)\)\s*\{(.*?)\n\}', re.S)

def generate(repo):
    src = open(os.path.join(repo, 'theta/include/bit_packing.hpp')).read()
    progs = {'pack': {}, 'unpack': {}}
    for m in FUNC.finditer(src):
        kind, b, args, body = m.group(1), int(m.group(2)), m.group(3), m.group(4)
        exp_args = 'const uint64_t* values, uint8_t* ptr' if kind == 'pack' else 'uint64_t* values, const uint8_t* ptr'
        if ' '.join(args.split()) != exp_args:
            raise TranslateError('%s_bits_%d: unexpected signature %r' % (kind, b, args))
        body = re.sub(r'//[^\n]*', '', body)
        st = {'off': 0}
        stmts = []
        for s in body.split(';'):
            s = ' '.join(s.split())
            if not s:
                continue
            try:
                stmts.append(translate_stmt(s, st))
            except TranslateError as e:
                raise TranslateError('%s_bits_%d: %s' % (kind, b, e))
        if b in progs[kind]:
            raise TranslateError('%s_bits_%d defined twice' % (kind, b))
        progs[kind][b] = stmts
    # the dispatchers must send case b to routine b
    for kind in ('pack', 'unpack'):
        dm = re.search(r'static inline void %s_bits_block8\([^)]*\)\s*\{\s*switch \(bits\) \{(.*?)default:' % kind, src, re.S)
        if not dm:
            raise TranslateError('%s_bits_block8 dispatcher not found' % kind)
        cases = re.findall(r'case (\d+): (\w+)\(values, ptr\); break;', dm.group(1))
        seen = {}
        for c, f in cases:
            if f != '%s_bits_%s' % (kind, c):
                raise TranslateError('dispatcher %s_bits_block8: case %s calls %s' % (kind, c, f))
            seen[int(c)] = True
        rest = re.sub(r'case (\d+): (\w+)\(values, ptr\); break;', '', dm.group(1)).strip()
        if rest:
            raise TranslateError('dispatcher %s_bits_block8: unexpected text %r' % (kind, rest[:60]))
        for b in range(1, 64):
            if b not in seen or b not in progs[kind]:
                raise TranslateError('%s_bits_%d missing' % (kind, b))
    out = ['(* GENERATED by translators/gen_bitpacking.py from theta/include/bit_packing.hpp — do not edit. *)',
           'From Coq Require Import List NArith.', 'From DS Require Import BitPackLang.', 'Import ListNotations.',
           'Local Open Scope N_scope.', '']
    for kind in ('pack', 'unpack'):
        for b in range(1, 64):
            out.append('Definition %s_prog_%d : list stmt := [' % (kind, b))
            out.append(';\n'.join('  ' + s for s in progs[kind][b]))
            out.append('].')
        out.append('Definition %s_prog (b : nat) : list stmt :=\n  match b with' % kind)
        for b in range(1, 64):
            out.append('  | %d%%nat => %s_prog_%d' % (b, kind, b))
        out.append('  | _ => []\n  end.\n')
    return {'gen/BitPackingGen.v': '\n'.join(out) + '\n'}

if __name__ == '__main__':
    import sys
    files = generate(sys.argv[1] if len(sys.argv) > 1 else '/repo')
    for k, v in files.items():
        print(k, len(v))
