# gen_boundtables.py — translates the numeric tables and scalar constants used by the estimator / confidence-bound code
# (C06) into Coq definitions (coq/gen/BoundTablesGen.v): binary64 values as exact hexadecimal PrimFloat literals
# (decimal literal -> nearest double exactly as the C++ compiler converts it), integer tables as Z.
# Sources: common/include/binomial_bounds.hpp, hll/include/RelativeErrorTables-internal.hpp, hll/include/HllUtil.hpp,
#          hll/include/CubicInterpolation-internal.hpp, hll/include/CompositeInterpolationXTable-internal.hpp, cpc/include/cpc_confidence.hpp, cpc/include/icon_estimator.hpp.
# A table or constant that cannot be found or contains anything but numeric literals raises: a translator failure is a
# broken proof obligation, never success. Table LENGTHS and side conditions are NOT checked here; they are Coq
# obligations over the generated lists (coq/BoundsTables.v), so that a changed entry/length breaks a proof, not this script.
import os, re

class TranslateError(Exception):
    pass

FLOAT_LIT = re.compile(r'^[+-]?(?:\d+\.\d*|\.\d+|\d+)(?:[eE][+-]?\d+)?$')
INT_LIT = re.compile(r'^[+-]?\d+$')

def strip_comments(src):
    src = re.sub(r'/\*.*?\*/', ' ', src, flags=re.S)
    src = re.sub(r'//[^\n]*', ' ', src)
    return src

def drop_ifdef(src, macro):
    """remove '#ifdef macro ... #endif' regions (macro is not defined in any build of the library)"""
    return re.sub(r'#ifdef\s+%s\b.*?#endif' % re.escape(macro), ' ', src, flags=re.S)

def find_array(src, name, ctype):
    m = re.search(r'\b%s\s+%s\s*\[[^\]]*\]\s*=\s*\{([^{}]*)\}\s*;' % (ctype, re.escape(name)), src, flags=re.S)
    if not m:
        raise TranslateError('array %s (%s) not found' % (name, ctype))
    elems = [e.strip() for e in m.group(1).split(',')]
    if elems and elems[-1] == '':
        elems.pop()          # trailing comma
    if not elems or any(e == '' for e in elems):
        raise TranslateError('array %s: empty element' % name)
    return elems

def find_array2d(src, name, ctype):
    """ctype name[..][..] = { {a, b, ...}, {...}, ... };  -> list of rows (lists of literal strings)"""
    m = re.search(r'\b%s\s+%s\s*\[[^\]]*\]\s*\[[^\]]*\]\s*=\s*\{((?:\s*\{[^{}]*\}\s*,?)+)\s*\}\s*;' % (ctype, re.escape(name)), src, flags=re.S)
    if not m:
        raise TranslateError('2-d array %s (%s) not found' % (name, ctype))
    rows = []
    for body in re.findall(r'\{([^{}]*)\}', m.group(1)):
        elems = [e.strip() for e in body.split(',')]
        if elems and elems[-1] == '':
            elems.pop()
        if not elems or any(e == '' for e in elems):
            raise TranslateError('array %s: empty element' % name)
        rows.append(elems)
    if not rows:
        raise TranslateError('array %s: no rows' % name)
    return rows

def find_scalar(src, name, ctype):
    m = re.search(r'\b%s\s+%s\s*=\s*([^;]+);' % (ctype, re.escape(name)), src)
    if not m:
        raise TranslateError('constant %s (%s) not found' % (name, ctype))
    return m.group(1).strip()

def coq_float(lit, where):
    if not FLOAT_LIT.match(lit):
        raise TranslateError('%s: not a floating literal: %r' % (where, lit))
    v = float(lit)                      # correctly rounded decimal -> binary64, as the compiler does
    if v != v or v in (float('inf'), float('-inf')):
        raise TranslateError('%s: literal out of range: %r' % (where, lit))
    h = abs(v).hex()                    # exact
    if v == 0.0:
        h = '0x0p+0'
    s = '%s%%float' % h
    if v < 0 or (v == 0.0 and lit.startswith('-')):
        s = '(- %s)%%float' % h
    return s

def coq_int(lit, where):
    if not INT_LIT.match(lit):
        raise TranslateError('%s: not an integer literal: %r' % (where, lit))
    v = int(lit)
    return '(%d)%%Z' % v

def fmt_list(items, per_line=3):
    lines = []
    for i in range(0, len(items), per_line):
        lines.append('  ' + '; '.join(items[i:i + per_line]))
    return '[\n' + ';\n'.join(lines) + '\n]'

FLOAT_TABLES = [
    # (file, C name, C type regex, Coq name)
    ('common/include/binomial_bounds.hpp', 'delta_of_num_std_devs', r'double', 'delta_of_num_std_devs'),
    ('common/include/binomial_bounds.hpp', 'lb_equiv_table', r'double', 'lb_equiv_table'),
    ('common/include/binomial_bounds.hpp', 'ub_equiv_table', r'double', 'ub_equiv_table'),
    ('hll/include/RelativeErrorTables-internal.hpp', 'HIP_LB', r'double', 'hll_HIP_LB'),
    ('hll/include/RelativeErrorTables-internal.hpp', 'HIP_UB', r'double', 'hll_HIP_UB'),
    ('hll/include/RelativeErrorTables-internal.hpp', 'NON_HIP_LB', r'double', 'hll_NON_HIP_LB'),
    ('hll/include/RelativeErrorTables-internal.hpp', 'NON_HIP_UB', r'double', 'hll_NON_HIP_UB'),
    ('hll/include/CubicInterpolation-internal.hpp', 'xArrComputed', r'double', 'coupon_xArr'),
    ('hll/include/CubicInterpolation-internal.hpp', 'yArrComputed', r'double', 'coupon_yArr'),
    ('cpc/include/icon_estimator.hpp', 'ICON_POLYNOMIAL_COEFFICIENTS', r'double', 'icon_coefficients'),
]
FLOAT_TABLES_2D = [
    ('hll/include/CompositeInterpolationXTable-internal.hpp', 'xArray', r'double', 'composite_xArrs'),
]
INT_TABLES = [
    ('hll/include/CompositeInterpolationXTable-internal.hpp', 'yStrides', r'uint32_t', 'composite_yStrides'),
    ('cpc/include/cpc_confidence.hpp', 'ICON_LOW_SIDE_DATA', r'int16_t', 'cpc_ICON_LOW_SIDE_DATA'),
    ('cpc/include/cpc_confidence.hpp', 'ICON_HIGH_SIDE_DATA', r'int16_t', 'cpc_ICON_HIGH_SIDE_DATA'),
    ('cpc/include/cpc_confidence.hpp', 'HIP_LOW_SIDE_DATA', r'int16_t', 'cpc_HIP_LOW_SIDE_DATA'),
    ('cpc/include/cpc_confidence.hpp', 'HIP_HIGH_SIDE_DATA', r'int16_t', 'cpc_HIP_HIGH_SIDE_DATA'),
]
FLOAT_SCALARS = [
    ('cpc/include/cpc_confidence.hpp', 'ICON_ERROR_CONSTANT', r'double', 'cpc_ICON_ERROR_CONSTANT'),
    ('cpc/include/cpc_confidence.hpp', 'HIP_ERROR_CONSTANT', r'double', 'cpc_HIP_ERROR_CONSTANT'),
    ('hll/include/HllUtil.hpp', 'HLL_HIP_RSE_FACTOR', r'double', 'hll_HIP_RSE_FACTOR'),
    ('hll/include/HllUtil.hpp', 'HLL_NON_HIP_RSE_FACTOR', r'double', 'hll_NON_HIP_RSE_FACTOR'),
    ('hll/include/HllUtil.hpp', 'COUPON_RSE_FACTOR', r'double', 'hll_COUPON_RSE_FACTOR'),
]
INT_SCALARS = [
    ('cpc/include/icon_estimator.hpp', 'ICON_MIN_LOG_K', r'int', 'icon_MIN_LOG_K'),
    ('cpc/include/icon_estimator.hpp', 'ICON_MAX_LOG_K', r'int', 'icon_MAX_LOG_K'),
    ('cpc/include/icon_estimator.hpp', 'ICON_POLYNOMIAL_DEGREE', r'int', 'icon_POLYNOMIAL_DEGREE'),
    ('hll/include/CubicInterpolation-internal.hpp', 'numEntries', r'int', 'coupon_numEntries'),
    ('hll/include/HllUtil.hpp', 'MIN_LOG_K', r'uint8_t', 'hll_MIN_LOG_K'),
    ('hll/include/HllUtil.hpp', 'MAX_LOG_K', r'uint8_t', 'hll_MAX_LOG_K'),
    ('hll/include/CompositeInterpolationXTable-internal.hpp', 'numXArrValues', r'uint32_t', 'composite_numXArrValues'),
]

def generate(repo):
    cache = {}
    def src(rel):
        if rel not in cache:
            p = os.path.join(repo, rel)
            if not os.path.exists(p):
                raise TranslateError('missing source file %s' % rel)
            s = strip_comments(open(p).read())
            s = drop_ifdef(s, 'LARGER_K_VALUES')
            cache[rel] = s
        return cache[rel]
    out = []
    out.append('(* GENERATED by translators/gen_boundtables.py from the headers of the checked tree -- do not edit.\n'
               '   binary64 constants are exact hexadecimal literals of the double the C++ compiler produces. *)\n'
               'From Coq Require Import ZArith Floats List.\nImport ListNotations.\n')
    for rel, cname, cty, qname in FLOAT_TABLES:
        elems = find_array(src(rel), cname, cty)
        items = [coq_float(e, '%s[%d]' % (cname, i)) for i, e in enumerate(elems)]
        out.append('(* %s : %s, %d entries *)\nDefinition %s : list float := %s.\n' % (rel, cname, len(items), qname, fmt_list(items)))
    for rel, cname, cty, qname in FLOAT_TABLES_2D:
        rows = find_array2d(src(rel), cname, cty)
        # emitted as IEEE-754 bit patterns (Z constants): 4626 float literals in one extracted OCaml module overflow the
        # OCaml compiler's stack; the model converts the few entries it reads with FloatBits.bits_to_float
        import struct
        def bits(e, where):
            coq_float(e, where)     # validates the literal
            return '%d' % struct.unpack('<Q', struct.pack('<d', float(e)))[0]
        for r, row in enumerate(rows):
            out.append('Definition %s_row%d : list Z := %s%%Z.\n' % (qname, r, fmt_list([bits(e, '%s[%d][%d]' % (cname, r, i)) for i, e in enumerate(row)], 4)))
        out.append('(* %s : %s, %d rows, binary64 bit patterns *)\nDefinition %s_bits : list (list Z) := [%s].\n' %
                   (rel, cname, len(rows), qname, '; '.join('%s_row%d' % (qname, r) for r in range(len(rows)))))
    for rel, cname, cty, qname in INT_TABLES:
        elems = find_array(src(rel), cname, cty)
        items = [coq_int(e, '%s[%d]' % (cname, i)) for i, e in enumerate(elems)]
        out.append('(* %s : %s, %d entries *)\nDefinition %s : list Z := %s.\n' % (rel, cname, len(items), qname, fmt_list(items, 6)))
    for rel, cname, cty, qname in FLOAT_SCALARS:
        lit = find_scalar(src(rel), cname, cty)
        out.append('(* %s : %s = %s *)\nDefinition %s : float := %s.\n' % (rel, cname, lit, qname, coq_float(lit, cname)))
    for rel, cname, cty, qname in INT_SCALARS:
        lit = find_scalar(src(rel), cname, cty)
        out.append('(* %s : %s = %s *)\nDefinition %s : Z := %s.\n' % (rel, cname, lit, qname, coq_int(lit, cname)))
    return {'gen/BoundTablesGen.v': '\n'.join(out)}

if __name__ == '__main__':
    import sys
    for rel, text in generate(sys.argv[1] if len(sys.argv) > 1 else '/repo').items():
        sys.stdout.write(text)
