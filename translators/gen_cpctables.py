# gen_cpctables.py — translates the three static tables of cpc/include/compression_data.hpp into Coq definitions
# (coq/gen/CpcTablesGen.v), as lists of N in decimal:
#   encoding_tables_for_high_entropy_byte [22][256]  (uint16_t)  -> list (list N)
#   length_limited_unary_encoding_table65 [65]       (uint16_t)  -> list N
#   column_permutations_for_encoding      [16][56]   (uint8_t)   -> list (list N)
# The translator is strict: the declared dimensions must be exactly those above, the initialiser must have exactly the
# declared shape, every entry must be a plain hex/decimal literal that fits the element type, and each array must be
# defined exactly once. Anything else raises: a translator failure is a broken proof obligation, never success.
# What the tables MEAN (prefix codes, decoding tables, permutations) is not checked here: those are Coq obligations
# over the generated lists (coq/CpcCodecTables.v), so a changed entry breaks a proof, not this script.
import os, re

class TranslateError(Exception):
    pass

SRC = 'cpc/include/compression_data.hpp'

HEX_LIT = re.compile(r'^0[xX][0-9a-fA-F]+$')
DEC_LIT = re.compile(r'^(0|[1-9][0-9]*)$')

def strip_comments(src):
    """single left-to-right pass (so '/*' inside a '//' comment, or '//' inside a block comment, is handled as C++ does);
       string/char literals outside comments are not expected in this header and are rejected."""
    out = []
    i, n = 0, len(src)
    while i < n:
        c2 = src[i:i + 2]
        if c2 == '//':
            j = src.find('\n', i)
            if j < 0:
                j = n
            if src[i:j].rstrip().endswith('\\'):
                raise TranslateError('line comment ending in a backslash continuation in %s' % SRC)
            out.append(' ')
            i = j
        elif c2 == '/*':
            j = src.find('*/', i + 2)
            if j < 0:
                raise TranslateError('unterminated block comment in %s' % SRC)
            out.append(' ')
            i = j + 2
        elif src[i] in '"\'':
            raise TranslateError('unexpected quote character outside comments in %s' % SRC)
        else:
            out.append(src[i])
            i += 1
    return ''.join(out)

def parse_lit(tok, maxval, where):
    t = tok.strip()
    if HEX_LIT.match(t):
        v = int(t, 16)
    elif DEC_LIT.match(t):
        v = int(t, 10)
    else:
        raise TranslateError('%s: entry %r is not a plain hex/decimal literal' % (where, t))
    if v > maxval:
        raise TranslateError('%s: entry %r does not fit the element type (max %d)' % (where, t, maxval))
    return v

def parse_flat(body, n, maxval, where):
    if '{' in body or '}' in body:
        raise TranslateError('%s: unexpected nested braces' % where)
    toks = body.split(',')
    if len(toks) != n:
        raise TranslateError('%s: expected %d entries, found %d' % (where, n, len(toks)))
    return [parse_lit(t, maxval, '%s[%d]' % (where, i)) for i, t in enumerate(toks)]

def find_decl(src, name, ctype, dims):
    """returns the text between the outer braces of 'static const <ctype> <name> [d0][d1].. = { ... };'"""
    pat = re.compile(r'\bstatic\s+const\s+%s\s+%s\s*((?:\[[^\]]*\]\s*)+)=\s*\{' % (ctype, re.escape(name)))
    ms = list(pat.finditer(src))
    if len(ms) != 1:
        raise TranslateError('array %s: expected exactly one definition "static const %s %s[..] = {", found %d'
                             % (name, ctype, name, len(ms)))
    m = ms[0]
    if len(re.findall(r'\b%s\b' % re.escape(name), src)) != 1:
        raise TranslateError('array %s: name occurs more than once in %s' % (name, SRC))
    got = [d.strip() for d in re.findall(r'\[([^\]]*)\]', m.group(1))]
    if got != [str(d) for d in dims]:
        raise TranslateError('array %s: declared dimensions %s, expected %s' % (name, got, list(dims)))
    # find matching close brace
    depth = 0
    i = m.end() - 1
    while i < len(src):
        c = src[i]
        if c == '{':
            depth += 1
        elif c == '}':
            depth -= 1
            if depth == 0:
                break
        i += 1
    if depth != 0:
        raise TranslateError('array %s: unbalanced braces' % name)
    if not re.match(r'\s*;', src[i + 1:]):
        raise TranslateError('array %s: initialiser not followed by ;' % name)
    return src[m.end():i]

def parse_1d(src, name, ctype, n, maxval):
    body = find_decl(src, name, ctype, (n,))
    return parse_flat(body, n, maxval, name)

def parse_2d(src, name, ctype, rows, cols, maxval):
    body = find_decl(src, name, ctype, (rows, cols))
    # body must be exactly: { row } , { row } , ... , { row }
    parts = re.findall(r'\{([^{}]*)\}', body)
    skeleton = re.sub(r'\{[^{}]*\}', '@', body)
    if ''.join(skeleton.split()) != ','.join(['@'] * rows):
        raise TranslateError('array %s: initialiser is not a list of exactly %d brace-enclosed rows' % (name, rows))
    if len(parts) != rows:
        raise TranslateError('array %s: expected %d rows, found %d' % (name, rows, len(parts)))
    return [parse_flat(p, cols, maxval, '%s[%d]' % (name, r)) for r, p in enumerate(parts)]

def fmt_list(vals, indent, per_line=16):
    lines = []
    for i in range(0, len(vals), per_line):
        lines.append(indent + '; '.join(str(v) for v in vals[i:i + per_line]))
    return (';\n').join(lines)

def fmt_2d(rows):
    return ';\n'.join('  [\n' + fmt_list(r, '    ') + '\n  ]' for r in rows)

def generate(repo):
    src = strip_comments(open(os.path.join(repo, SRC)).read())
    # the only preprocessor lines allowed are the include guard (an '#if 0' / '#ifdef' region could hide or swap a table)
    pp = [' '.join(l.split()) for l in src.split('\n') if l.strip().startswith('#')]
    if pp != ['#ifndef CPC_COMPRESSION_DATA_HPP_', '#define CPC_COMPRESSION_DATA_HPP_', '#endif']:
        raise TranslateError('unexpected preprocessor lines in %s: %r' % (SRC, pp[:6]))
    byte_tables = parse_2d(src, 'encoding_tables_for_high_entropy_byte', 'uint16_t', 22, 256, 0xffff)
    unary = parse_1d(src, 'length_limited_unary_encoding_table65', 'uint16_t', 65, 0xffff)
    perms = parse_2d(src, 'column_permutations_for_encoding', 'uint8_t', 16, 56, 0xff)
    # final shape assertions (belt and braces)
    if len(byte_tables) != 22 or any(len(r) != 256 for r in byte_tables):
        raise TranslateError('encoding_tables_for_high_entropy_byte: shape is not 22x256')
    if len(unary) != 65:
        raise TranslateError('length_limited_unary_encoding_table65: length is not 65')
    if len(perms) != 16 or any(len(r) != 56 for r in perms):
        raise TranslateError('column_permutations_for_encoding: shape is not 16x56')
    out = ['(* GENERATED by translators/gen_cpctables.py from %s — do not edit. *)' % SRC,
           'From Coq Require Import NArith List.', 'Import ListNotations.', 'Local Open Scope N_scope.', '',
           '(* uint16_t [22][256]: entry = (code_length << 12) | code_value *)',
           'Definition encoding_tables_for_high_entropy_byte : list (list N) := [',
           fmt_2d(byte_tables), '].', '',
           '(* uint16_t [65] *)',
           'Definition length_limited_unary_encoding_table65 : list N := [',
           fmt_list(unary, '  '), '].', '',
           '(* uint8_t [16][56] *)',
           'Definition column_permutations_for_encoding : list (list N) := [',
           fmt_2d(perms), '].', '']
    return {'gen/CpcTablesGen.v': '\n'.join(out)}

if __name__ == '__main__':
    import sys
    files = generate(sys.argv[1] if len(sys.argv) > 1 else '/repo')
    for k, v in files.items():
        print(k, len(v))
        if len(sys.argv) > 2:
            p = os.path.join(sys.argv[2], k)
            os.makedirs(os.path.dirname(p), exist_ok=True)
            open(p, 'w').write(v)
